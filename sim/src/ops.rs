//! The concrete operation language of a run. A replay file is the op list itself (plus the
//! run configuration), never a PRNG position, so shrinking can delete and simplify ops freely.
//! Selectors (`sel`) are resolved at execution time modulo the number of available choices, so
//! an op stays meaningful when earlier ops are removed.
use serde_json::{json, Map, Value};

/// Replay files must carry floats exactly, and the simulator must not enable serde_json's
/// `float_roundtrip` itself (cargo feature unification would switch it on for libmelda too and
/// hide a defect there), so every non-integer number is written as its bit pattern.
pub fn enc(v: &Value) -> Value {
    match v {
        Value::Number(n) if n.is_f64() => json!({ "$f64bits": format!("{:016x}", n.as_f64().unwrap().to_bits()) }),
        Value::Array(a) => Value::Array(a.iter().map(enc).collect()),
        Value::Object(o) => Value::Object(o.iter().map(|(k, x)| (k.clone(), enc(x))).collect()),
        other => other.clone(),
    }
}

pub fn dec(v: &Value) -> Value {
    match v {
        Value::Object(o) if o.len() == 1 && o.contains_key("$f64bits") => {
            let bits = o["$f64bits"].as_str().and_then(|s| u64::from_str_radix(s, 16).ok()).unwrap_or(0);
            json!(f64::from_bits(bits))
        }
        Value::Array(a) => Value::Array(a.iter().map(dec).collect()),
        Value::Object(o) => Value::Object(o.iter().map(|(k, x)| (k.clone(), dec(x))).collect()),
        other => other.clone(),
    }
}

#[derive(Clone, Debug, PartialEq)]
pub enum Op {
    /// `update(doc)`; `twice`: submit the same document again and check idempotence
    Update { r: usize, doc: Value, twice: bool },
    Commit { r: usize, info: Option<Value> },
    /// `r.meld(&from)`
    Meld { r: usize, from: usize },
    Refresh { r: usize },
    Reload { r: usize },
    /// `reload_until(H)` for a set of heads this replica had before (checkpoint `sel`)
    /// `of`: whose recorded head sets to choose from (the replica's own when equal to `r`); `extra` > 0
    /// adds the heads of an older head set of the same replica to the request (a hand-built anchor set in
    /// which one block is an ancestor of another)
    ReloadUntil { r: usize, sel: u32, of: usize, extra: u32 },
    /// `resolve_as(in_conflict[obj_sel], leaves[leaf_sel])`
    Resolve { r: usize, obj_sel: u32, leaf_sel: u32 },
    Unstage { r: usize },
    /// `stage()` -> `unstage()` -> `replay_stage()`
    StageRoundTrip { r: usize },
    Snapshot { r: usize },
    /// `stage()` is exported and kept aside; unless `keep`, the stage is then discarded (`unstage()`)
    StageSave { r: usize, keep: bool },
    /// `replay_stage()` of the export kept aside by the last StageSave (if any)
    /// `older`: replay the export saved before the most recent one (two exports can be outstanding)
    StageRestore { r: usize, older: bool },
    /// `replay_stage()` on `r` of what `from` has staged right now (or, if nothing, of its last kept export):
    /// staged work travels between replicas without a commit
    StageForeign { r: usize, from: usize },
    /// direct object API on one tracked element: kind 0 update_object(fields), 1 delete_object,
    /// 2 remove_object, 3 create_object(fields) on that or on a new identifier
    ObjOp { r: usize, kind: u8, id_sel: u32, fields: Value },
    /// SyncNet: copy one stored item (chosen by `sel` among those `to` lacks) from `from` to `to`;
    /// delivered `delay` Deliver-ticks later; `dup`: delivered twice; `drop`: lost
    Send { from: usize, to: usize, sel: u32, delay: u32, dup: bool, drop: bool },
    /// SyncNet: copy everything `to` lacks, no faults ("copy the directory")
    SendAll { from: usize, to: usize },
    /// advance the transport by one tick and deliver what is due
    Tick,
    /// partition: replicas whose bit is set cannot exchange with those whose bit is clear
    Partition { mask: u32 },
    Heal,
    /// drop the live instance and open a new one on the durable state
    Restart { r: usize },
    /// arm: the `nth` write from now on replica r fails, `repeat` writes in a row
    FailWrites { r: usize, nth: u32, repeat: u32 },
    DiskFull { r: usize, on: bool },
    /// an observation without state change: what 0 = read(None), 1 = has_staging(), 2 = in_conflict().
    /// The generator's own looks at a replica are recorded as such ops: they touch the library's
    /// caches and consume scheduling / loop-order decisions, so a replay must repeat them.
    Read { r: usize, what: u8 },
    /// C01 bounded liveness, self-contained: heal, flush the transport, reload time-travelled
    /// replicas, commit-or-unstage everywhere, then rounds of "every ordered pair melds, everyone
    /// refreshes"; within N+1 rounds every meld must return nothing and all states must be equal
    Converge { commit: bool },
    /// C19, self-contained: replicas a and b are brought to the same version, both submit the same
    /// document and commit with different commit infos, then exchange: the same edit on the same
    /// version gives the same revisions, so no new conflict may arise
    SameEdit { a: usize, b: usize, doc: Value },
}

impl Op {
    pub fn replica(&self) -> Option<usize> {
        use Op::*;
        match self {
            Update { r, .. } | Commit { r, .. } | Meld { r, .. } | Refresh { r } | Reload { r } | ReloadUntil { r, .. }
            | Resolve { r, .. } | Unstage { r } | StageRoundTrip { r } | Snapshot { r } | StageSave { r, .. } | StageRestore { r, .. } | StageForeign { r, .. } | ObjOp { r, .. } | Restart { r }
            | FailWrites { r, .. } | DiskFull { r, .. } | Read { r, .. } => Some(*r),
            Send { to, .. } | SendAll { to, .. } => Some(*to),
            Tick | Partition { .. } | Heal | Converge { .. } => None,
            SameEdit { a, .. } => Some(*a),
        }
    }

    pub fn name(&self) -> &'static str {
        use Op::*;
        match self {
            Update { .. } => "update",
            Commit { .. } => "commit",
            Meld { .. } => "meld",
            Refresh { .. } => "refresh",
            Reload { .. } => "reload",
            ReloadUntil { .. } => "reload_until",
            Resolve { .. } => "resolve",
            Unstage { .. } => "unstage",
            StageRoundTrip { .. } => "stage_roundtrip",
            Snapshot { .. } => "snapshot",
            StageSave { .. } => "stage_save",
            StageRestore { .. } => "stage_restore",
            StageForeign { .. } => "stage_foreign",
            ObjOp { .. } => "objop",
            Send { .. } => "send",
            SendAll { .. } => "sendall",
            Tick => "tick",
            Partition { .. } => "partition",
            Heal => "heal",
            Restart { .. } => "restart",
            FailWrites { .. } => "failwrites",
            DiskFull { .. } => "diskfull",
            Read { .. } => "read",
            Converge { .. } => "converge",
            SameEdit { .. } => "same_edit",
        }
    }

    pub fn to_json(&self) -> Value {
        enc(&self.to_json_raw())
    }

    fn to_json_raw(&self) -> Value {
        use Op::*;
        match self {
            Update { r, doc, twice } => json!({"op":"update","r":r,"doc":doc,"twice":twice}),
            Commit { r, info } => json!({"op":"commit","r":r,"info":info}),
            Meld { r, from } => json!({"op":"meld","r":r,"from":from}),
            Refresh { r } => json!({"op":"refresh","r":r}),
            Reload { r } => json!({"op":"reload","r":r}),
            ReloadUntil { r, sel, of, extra } => json!({"op":"reload_until","r":r,"sel":sel,"of":of,"extra":extra}),
            Resolve { r, obj_sel, leaf_sel } => json!({"op":"resolve","r":r,"obj_sel":obj_sel,"leaf_sel":leaf_sel}),
            Unstage { r } => json!({"op":"unstage","r":r}),
            StageRoundTrip { r } => json!({"op":"stage_roundtrip","r":r}),
            Snapshot { r } => json!({"op":"snapshot","r":r}),
            StageSave { r, keep } => json!({"op":"stage_save","r":r,"keep":keep}),
            StageRestore { r, older } => json!({"op":"stage_restore","r":r,"older":older}),
            StageForeign { r, from } => json!({"op":"stage_foreign","r":r,"from":from}),
            ObjOp { r, kind, id_sel, fields } => json!({"op":"objop","r":r,"kind":kind,"id_sel":id_sel,"fields":fields}),
            Send { from, to, sel, delay, dup, drop } => json!({"op":"send","from":from,"to":to,"sel":sel,"delay":delay,"dup":dup,"drop":drop}),
            SendAll { from, to } => json!({"op":"sendall","from":from,"to":to}),
            Tick => json!({"op":"tick"}),
            Partition { mask } => json!({"op":"partition","mask":mask}),
            Heal => json!({"op":"heal"}),
            Restart { r } => json!({"op":"restart","r":r}),
            FailWrites { r, nth, repeat } => json!({"op":"failwrites","r":r,"nth":nth,"repeat":repeat}),
            DiskFull { r, on } => json!({"op":"diskfull","r":r,"on":on}),
            Read { r, what } => json!({"op":"read","r":r,"what":what}),
            Converge { commit } => json!({"op":"converge","commit":commit}),
            SameEdit { a, b, doc } => json!({"op":"same_edit","a":a,"b":b,"doc":doc}),
        }
    }

    pub fn from_json(v: &Value) -> Result<Op, String> {
        let v = &dec(v);
        let o: &Map<String, Value> = v.as_object().ok_or("op not an object")?;
        let u = |k: &str| -> Result<usize, String> { o.get(k).and_then(|x| x.as_u64()).map(|x| x as usize).ok_or(format!("missing {}", k)) };
        let u32_ = |k: &str| -> Result<u32, String> { u(k).map(|x| x as u32) };
        let b = |k: &str| -> bool { o.get(k).and_then(|x| x.as_bool()).unwrap_or(false) };
        let name = o.get("op").and_then(|x| x.as_str()).ok_or("missing op")?;
        Ok(match name {
            "update" => Op::Update { r: u("r")?, doc: o.get("doc").cloned().ok_or("missing doc")?, twice: b("twice") },
            "commit" => Op::Commit { r: u("r")?, info: o.get("info").cloned().filter(|x| !x.is_null()) },
            "meld" => Op::Meld { r: u("r")?, from: u("from")? },
            "refresh" => Op::Refresh { r: u("r")? },
            "reload" => Op::Reload { r: u("r")? },
            "reload_until" => Op::ReloadUntil { r: u("r")?, sel: u32_("sel")?, of: u("of").unwrap_or(u("r")?), extra: u32_("extra").unwrap_or(0) },
            "resolve" => Op::Resolve { r: u("r")?, obj_sel: u32_("obj_sel")?, leaf_sel: u32_("leaf_sel")? },
            "unstage" => Op::Unstage { r: u("r")? },
            "stage_roundtrip" => Op::StageRoundTrip { r: u("r")? },
            "snapshot" => Op::Snapshot { r: u("r")? },
            "stage_save" => Op::StageSave { r: u("r")?, keep: b("keep") },
            "stage_restore" => Op::StageRestore { r: u("r")?, older: b("older") },
            "stage_foreign" => Op::StageForeign { r: u("r")?, from: u("from")? },
            "objop" => Op::ObjOp { r: u("r")?, kind: u("kind")? as u8, id_sel: u32_("id_sel")?, fields: o.get("fields").cloned().unwrap_or(Value::Null) },
            "send" => Op::Send { from: u("from")?, to: u("to")?, sel: u32_("sel")?, delay: u32_("delay")?, dup: b("dup"), drop: b("drop") },
            "sendall" => Op::SendAll { from: u("from")?, to: u("to")? },
            "tick" => Op::Tick,
            "partition" => Op::Partition { mask: u32_("mask")? },
            "heal" => Op::Heal,
            "restart" => Op::Restart { r: u("r")? },
            "failwrites" => Op::FailWrites { r: u("r")?, nth: u32_("nth")?, repeat: u32_("repeat")? },
            "diskfull" => Op::DiskFull { r: u("r")?, on: b("on") },
            "read" => Op::Read { r: u("r")?, what: u("what").unwrap_or(0) as u8 },
            "converge" => Op::Converge { commit: b("commit") },
            "same_edit" => Op::SameEdit { a: u("a")?, b: u("b")?, doc: o.get("doc").cloned().ok_or("missing doc")? },
            other => return Err(format!("unknown op {}", other)),
        })
    }

    /// A one-line rendering for traces and samples.
    pub fn brief(&self) -> String {
        match self {
            Op::Update { r, doc, twice } => {
                let s = doc.to_string();
                let s: String = s.chars().take(120).collect();
                format!("update r{}{} {}", r, if *twice { " x2" } else { "" }, s)
            }
            other => {
                let mut v = other.to_json_raw();
                let o = v.as_object_mut().unwrap();
                let name = o.remove("op").unwrap();
                format!("{} {}", name.as_str().unwrap(), Value::Object(o.clone()))
            }
        }
    }
}
