//! The world: replicas over `SimAdapter`s, the file-sync transport, execution of ops through
//! the public API of the real `Melda`, and the oracles evaluated while the run proceeds.
use crate::api::{self, canon_stage, delta_ids, diff_digest, digest, guard, heads_of, read_doc, semantic, trunc, Crash};
use crate::disk::{Call, DiskRef, Items, WriteOutcome};
use crate::docgen::{self, DocCfg};
use crate::ops::Op;
use crate::refstore::{self, sha_hex, RefDoc, RefState, Rev};
use melda::melda::Melda;
use serde_json::{json, Map, Value};
use std::collections::{BTreeMap, BTreeSet};

#[derive(Clone, Debug)]
pub struct RunCfg {
    pub seed: u64,
    pub prop: String,
    pub profile: String,
    pub n_replicas: usize,
    pub hash_seed: u64,
    pub order_seed: u64,
    pub list_seed: u64,
    pub cache_ad: u32,
    pub cache_data: u32,
    pub pool: usize,
    pub doc: DocCfg,
    /// "sim" (SimAdapter alone) or the name of a real backend behind it (C17)
    pub backend: String,
}

impl RunCfg {
    pub fn to_json(&self) -> Value {
        json!({
            "seed": self.seed, "prop": self.prop, "profile": self.profile, "n_replicas": self.n_replicas,
            "hash_seed": self.hash_seed, "order_seed": self.order_seed, "list_seed": self.list_seed,
            "cache_ad": self.cache_ad, "cache_data": self.cache_data, "pool": self.pool,
            "build": crate::seam::FLAVOUR, "backend": self.backend,
            "doc": { "id_pool": self.doc.id_pool, "nasty": self.doc.nasty, "floats": self.doc.floats,
                     "max_elems": self.doc.max_elems, "kinds": self.doc.kinds, "nested": self.doc.nested, "bang_ids": self.doc.bang_ids, "root_ids": self.doc.root_ids, "chars": self.doc.chars, "chain": self.doc.chain },
        })
    }
    pub fn from_json(v: &Value) -> Result<RunCfg, String> {
        let u = |k: &str| v.get(k).and_then(|x| x.as_u64()).ok_or(format!("cfg: missing {}", k));
        let d = v.get("doc").ok_or("cfg: missing doc")?;
        let du = |k: &str| d.get(k).and_then(|x| x.as_u64()).unwrap_or(6) as usize;
        let db = |k: &str| d.get(k).and_then(|x| x.as_bool()).unwrap_or(false);
        Ok(RunCfg {
            seed: u("seed")?,
            prop: v.get("prop").and_then(|x| x.as_str()).unwrap_or("").to_string(),
            profile: v.get("profile").and_then(|x| x.as_str()).unwrap_or("").to_string(),
            n_replicas: u("n_replicas")? as usize,
            hash_seed: u("hash_seed")?,
            order_seed: u("order_seed")?,
            list_seed: u("list_seed")?,
            cache_ad: u("cache_ad")? as u32,
            cache_data: u("cache_data")? as u32,
            pool: u("pool").unwrap_or(4) as usize,
            backend: v.get("backend").and_then(|x| x.as_str()).unwrap_or("sim").to_string(),
            doc: DocCfg { id_pool: du("id_pool"), nasty: db("nasty"), floats: db("floats"), max_elems: du("max_elems"), kinds: db("kinds"), nested: db("nested"), bang_ids: db("bang_ids"), root_ids: db("root_ids"), chars: db("chars"), chain: db("chain") },
        })
    }
}

#[derive(Clone, Debug)]
pub struct Violation {
    pub prop: String,
    pub check: String,
    /// stable signature used for shrinking ("same violation class") and known findings
    pub class: String,
    pub step: usize,
    pub detail: String,
}

impl Violation {
    pub fn to_json(&self) -> Value {
        json!({"property": self.prop, "check": self.check, "class": self.class, "step": self.step, "detail": self.detail})
    }
}

#[derive(Clone, Debug)]
pub enum Stop {
    Violation(Violation),
    /// the run cannot continue but the property under check is not decided by it
    /// (e.g. an abort while checking a property other than C08)
    Inconclusive(String),
}

#[derive(Clone, Debug)]
pub struct Checkpoint {
    pub heads: BTreeSet<String>,
    pub digest: Value,
    /// uuid -> revision -> (value, parent); only recorded when the property needs it
    pub revs: BTreeMap<String, BTreeMap<String, (Value, Option<String>)>>,
}

pub struct Replica {
    pub disk: DiskRef,
    pub live: Option<Melda>,
    /// document the user of this replica submitted last (the C04 user model)
    pub model_doc: Option<Value>,
    /// disk keys at the last open / refresh / reload, plus this replica's own writes
    pub seen: BTreeSet<String>,
    pub time_travel: bool,
    pub checkpoints: Vec<Checkpoint>,
    /// digest at the last moment nothing was staged (C15 `S0`)
    pub clean_digest: Option<Value>,
    /// (array uuid, revision) -> submitted order (C16 user model)
    pub array_orders: BTreeMap<(String, String), Vec<String>>,
    /// array uuid -> order submitted last (successive pairs for the edit-script contract)
    pub last_orders: BTreeMap<String, Vec<String>>,
    pub commits: u64,
    pub failed_commit_pending: bool,
    /// false between a commit made while a foreign block was held back and the next refresh: the
    /// commit's own pack may have completed that block, which the replica only learns by refreshing
    pub fresh: bool,
    /// export kept aside by StageSave
    pub saved_stage: Option<Option<Value>>,
    /// the export saved before `saved_stage`
    pub older_stage: Option<Option<Value>>,
}

pub struct Msg {
    pub to: usize,
    pub key: String,
    pub bytes: Vec<u8>,
    pub due: u64,
    pub seq: u64,
}

pub struct World {
    pub cfg: RunCfg,
    pub prop: String,
    pub replicas: Vec<Replica>,
    pub queue: Vec<Msg>,
    pub tick: u64,
    pub seq: u64,
    pub partition: Option<u32>,
    pub step: usize,
    pub stats: std::cell::RefCell<BTreeMap<String, u64>>,
    pub states: BTreeSet<u64>,
    pub trace_hash: u64,
    /// C19: (canonical object json, parent id) -> revision id, world-global
    pub rev_by_content: BTreeMap<(String, String), String>,
    pub rev_seen: BTreeSet<String>,
    /// key -> bytes of every item ever seen anywhere (C11: identical everywhere, forever)
    pub all_items: BTreeMap<String, String>,
    pub nontrivial: bool,
}

pub type Res = Result<(), Stop>;

macro_rules! viol {
    ($w:expr, $check:expr, $class:expr, $($arg:tt)*) => {
        return Err(Stop::Violation(Violation { prop: $w.prop.clone(), check: $check.to_string(), class: $class.to_string(), step: $w.step, detail: format!($($arg)*) }))
    };
}

impl World {
    pub fn new(cfg: RunCfg) -> Result<World, Stop> {
        crate::seam::install(cfg.hash_seed, cfg.order_seed, cfg.cache_ad, cfg.cache_data);
        let mut w = World {
            prop: cfg.prop.clone(),
            replicas: vec![],
            queue: vec![],
            tick: 0,
            seq: 0,
            partition: None,
            step: 0,
            stats: std::cell::RefCell::new(BTreeMap::new()),
            states: BTreeSet::new(),
            trace_hash: 0xcbf29ce484222325,
            rev_by_content: BTreeMap::new(),
            rev_seen: BTreeSet::new(),
            all_items: BTreeMap::new(),
            nontrivial: false,
            cfg,
        };
        for i in 0..w.cfg.n_replicas {
            let disk = DiskRef::new(w.cfg.list_seed ^ (i as u64 + 1).wrapping_mul(0x9E3779B97F4A7C15));
            if w.cfg.backend != "sim" && !w.cfg.backend.is_empty() {
                let path = w.backend_path(i);
                let _ = std::fs::create_dir_all(crate::backends::scratch_root());
                let _ = std::fs::remove_dir_all(&path);
                let _ = std::fs::remove_file(&path);
                match crate::backends::open(&w.cfg.backend, &path) {
                    Ok(b) => disk.with(|d| {
                        d.backend = Some(b);
                        d.backend_name = w.cfg.backend.clone();
                        if crate::backends::persistent(&w.cfg.backend) {
                            d.sync_handle = crate::backends::open(&w.cfg.backend, &path).ok();
                        }
                    }),
                    Err(c) => return Err(Stop::Violation(Violation { prop: w.prop.clone(), check: "backend-open".into(), class: format!("backend-open-{}", c.class()), step: 0, detail: format!("constructing backend {} does not return: {}", w.cfg.backend, c.text()) })),
                }
            }
            let store = disk.store();
            let live = match guard(|| Melda::new(store)) {
                Ok(Ok(m)) => m,
                Ok(Err(e)) => return Err(Stop::Inconclusive(format!("open of empty store failed: {}", e))),
                Err(c) => return Err(w.crash("open", c)),
            };
            disk.take_log();
            w.replicas.push(Replica {
                disk,
                live: Some(live),
                model_doc: None,
                seen: BTreeSet::new(),
                time_travel: false,
                checkpoints: vec![],
                clean_digest: None,
                array_orders: BTreeMap::new(),
                last_orders: BTreeMap::new(),
                commits: 0,
                failed_commit_pending: false,
                fresh: true,
                saved_stage: None,
                older_stage: None,
            });
        }
        Ok(w)
    }

    /// A world without replicas (only used to report a failure to construct one).
    pub fn new_empty(cfg: RunCfg) -> World {
        World {
            prop: cfg.prop.clone(),
            replicas: vec![],
            queue: vec![],
            tick: 0,
            seq: 0,
            partition: None,
            step: 0,
            stats: std::cell::RefCell::new(BTreeMap::new()),
            states: BTreeSet::new(),
            trace_hash: 0,
            rev_by_content: BTreeMap::new(),
            rev_seen: BTreeSet::new(),
            all_items: BTreeMap::new(),
            nontrivial: false,
            cfg,
        }
    }

    pub fn backend_path(&self, i: usize) -> String {
        format!("{}/w{:x}-r{}", crate::backends::scratch_root(), self.cfg.seed, i)
    }

    /// Removes the scratch storage of real backends (C17).
    pub fn cleanup(&mut self) {
        if self.cfg.backend != "sim" && !self.cfg.backend.is_empty() {
            for i in 0..self.replicas.len() {
                self.replicas[i].live = None;
                self.replicas[i].disk.with(|d| d.backend = None);
                let p = self.backend_path(i);
                let _ = std::fs::remove_dir_all(&p);
                let _ = std::fs::remove_file(&p);
            }
        }
    }

    pub fn is(&self, props: &[&str]) -> bool {
        props.iter().any(|p| *p == self.prop)
    }

    pub fn bump(&self, k: &str) {
        *self.stats.borrow_mut().entry(k.to_string()).or_insert(0) += 1;
    }
    pub fn add(&self, k: &str, n: u64) {
        *self.stats.borrow_mut().entry(k.to_string()).or_insert(0) += n;
    }

    /// An abort / hang of a public call. Always a C08 violation; for other properties the run
    /// just cannot continue.
    pub fn crash(&self, api: &str, c: Crash) -> Stop {
        let class = format!("{}:{}", c.class(), api);
        if self.prop == "C08" {
            Stop::Violation(Violation { prop: self.prop.clone(), check: "returns".into(), class, step: self.step, detail: format!("{} did not return: {}", api, c.text()) })
        } else {
            Stop::Inconclusive(format!("{} [{}]", class, c.text()))
        }
    }

    fn live(&self, r: usize) -> &Melda {
        self.replicas[r].live.as_ref().expect("replica has no live instance")
    }

    pub fn call<T>(&self, api: &str, f: impl FnOnce() -> T) -> Result<T, Stop> {
        guard(f).map_err(|c| self.crash(api, c))
    }

    pub fn digest_of(&self, r: usize) -> Result<Value, Stop> {
        digest(self.live(r)).map_err(|c| self.crash("digest", c))
    }

    pub fn array_in_conflict(&self, r: usize) -> Result<bool, Stop> {
        let m = self.live(r);
        self.call("in_conflict", || m.in_conflict().iter().any(|u| u.starts_with('^')))
    }

    // ------------------------------------------------------------------ execution

    /// Bookkeeping of an op whose effect already took place (a read the generator performed).
    pub fn account(&mut self, op: &Op) {
        self.step += 1;
        crate::sched::note_step(self.step);
        self.trace_hash = (self.trace_hash ^ crate::rng::fnv64(op.to_json().to_string().as_bytes())).wrapping_mul(0x100000001b3);
        self.bump(&format!("op.{}", op.name()));
    }

    pub fn exec(&mut self, op: &Op) -> Res {
        self.step += 1;
        crate::sched::note_step(self.step);
        self.trace_hash = (self.trace_hash ^ crate::rng::fnv64(op.to_json().to_string().as_bytes())).wrapping_mul(0x100000001b3);
        self.bump(&format!("op.{}", op.name()));
        if let Some(r) = op.replica() {
            if r >= self.replicas.len() {
                return Ok(());
            }
        }
        let res = self.exec_inner(op);
        if res.is_ok() {
            self.after_op(op)?;
        }
        res
    }

    fn exec_inner(&mut self, op: &Op) -> Res {
        match op {
            Op::Update { r, doc, twice } => self.op_update(*r, doc, *twice),
            Op::Commit { r, info } => self.op_commit(*r, info),
            Op::Meld { r, from } => self.op_meld(*r, *from),
            Op::Refresh { r } => self.op_refresh(*r, 0),
            Op::Reload { r } => self.op_refresh(*r, 1),
            Op::ReloadUntil { r, sel, of, extra } => self.op_reload_until(*r, *sel, *of, *extra),
            Op::Resolve { r, obj_sel, leaf_sel } => self.op_resolve(*r, *obj_sel, *leaf_sel),
            Op::Unstage { r } => self.op_unstage(*r),
            Op::StageRoundTrip { r } => self.op_stage_roundtrip(*r),
            Op::Snapshot { r } => self.op_snapshot(*r),
            Op::StageSave { r, keep } => self.op_stage_save(*r, *keep),
            Op::StageRestore { r, older } => self.op_stage_restore(*r, *older),
            Op::StageForeign { r, from } => self.op_stage_foreign(*r, *from),
            Op::ObjOp { r, kind, id_sel, fields } => self.op_objop(*r, *kind, *id_sel, fields),
            Op::Send { from, to, sel, delay, dup, drop } => self.op_send(*from, *to, *sel, *delay, *dup, *drop),
            Op::SendAll { from, to } => self.op_sendall(*from, *to),
            Op::Tick => self.op_tick(),
            Op::Partition { mask } => {
                self.partition = Some(*mask);
                self.bump("fault.partition");
                Ok(())
            }
            Op::Heal => {
                if self.partition.take().is_some() {
                    self.bump("fault.heal");
                }
                Ok(())
            }
            Op::Restart { r } => self.op_restart(*r),
            Op::FailWrites { r, nth, repeat } => {
                let (nth, repeat) = (*nth as u64, (*repeat).max(1) as u64);
                self.replicas[*r].disk.with(|d| {
                    for k in 0..repeat {
                        d.fail_writes.insert(d.writes + nth.max(1) + k);
                    }
                });
                Ok(())
            }
            Op::DiskFull { r, on } => {
                self.replicas[*r].disk.with(|d| d.disk_full = *on);
                Ok(())
            }
            Op::Read { r, what } => self.op_read(*r, *what),
            Op::Converge { commit } => self.op_converge(*commit),
            Op::SameEdit { a, b, doc } => self.op_same_edit(*a, *b, doc),
        }
    }

    // ---------------------------------------------------------------- same edit on two replicas (C19)

    fn op_same_edit(&mut self, a: usize, b: usize, doc: &Value) -> Res {
        if a == b || b >= self.replicas.len() || self.partitioned(a, b) {
            return Ok(());
        }
        // bring both to the same version
        for r in [a, b] {
            if self.replicas[r].time_travel {
                self.op_refresh(r, 1)?;
            }
            let staging = { let m = self.live(r); self.call("has_staging", || m.has_staging())? };
            if staging {
                self.op_commit(r, &None)?;
            }
        }
        for _ in 0..2 {
            self.op_meld(a, b)?;
            self.op_refresh(a, 0)?;
            self.op_meld(b, a)?;
            self.op_refresh(b, 0)?;
        }
        let (da, db) = (self.digest_of(a)?, self.digest_of(b)?);
        if da != db {
            // not the same version (e.g. items still in flight elsewhere): nothing to say
            return Ok(());
        }
        // a held-back foreign block could become complete through the very packs the two commits write
        // (same objects) and bring a concurrent branch in: then a conflict is not due to the same edit
        let held = [a, b].iter().any(|x| api::block_status(self.live(*x)).values().any(|s| s != "applied"));
        if held {
            self.bump("probe.same_edit_skipped_held_back");
            return Ok(());
        }
        let conf_before: BTreeSet<String> = da["in_conflict"].as_array().unwrap().iter().map(|x| x.as_str().unwrap().to_string()).collect();
        if !conf_before.is_empty() {
            // an array in conflict makes the submitted edit scripts depend on the merge; keep to the clean case
            return Ok(());
        }
        self.op_update(a, doc, false)?;
        // b's user has the same document, but it went through JSON text on the way (other spelling of
        // the same numbers: exponents, trailing zeros) — the same content nevertheless
        let doc_b = docgen::respelled(doc);
        if !docgen::same_json_value(&doc_b, doc) {
            return Err(Stop::Inconclusive("harness: re-spelled document denotes another value".into()));
        }
        self.op_update(b, &doc_b, false)?;
        let (sa, sb) = (self.digest_of(a)?, self.digest_of(b)?);
        if self.is(&["C19"]) && sa["winners"] != sb["winners"] {
            viol!(self, "same-edit-same-revision", "same-edit-different-revisions", "two replicas at the same version submitted the same document but obtained different revisions: {}", diff_digest(&sa, &sb));
        }
        self.op_commit(a, &Some(json!({"who": "a", "n": 1})))?;
        self.op_commit(b, &Some(json!({"who": "b", "n": [2, 3]})))?;
        for _ in 0..2 {
            self.op_meld(a, b)?;
            self.op_refresh(a, 0)?;
            self.op_meld(b, a)?;
            self.op_refresh(b, 0)?;
        }
        let (ea, eb) = (self.digest_of(a)?, self.digest_of(b)?);
        self.bump("probe.same_edit");
        if self.is(&["C19", "C01"]) {
            if ea != eb {
                viol!(self, "same-edit-converges", "same-edit-diverged", "after the same edit on both and a full exchange the replicas differ: {}", diff_digest(&ea, &eb));
            }
            let conf_after = ea["in_conflict"].as_array().unwrap();
            if !conf_after.is_empty() {
                viol!(self, "same-edit-no-conflict", "same-edit-conflict", "the same edit made independently on the same version produced conflicts on {:?}", conf_after);
            }
            if ea["heads"].as_array().map_or(0, |h| h.len()) == 2 {
                self.bump("probe.same_edit_two_heads");
            }
        }
        Ok(())
    }

    // ---------------------------------------------------------------- convergence (C01 liveness)

    fn op_converge(&mut self, commit: bool) -> Res {
        let n = self.replicas.len();
        self.partition = None;
        // stop faults: clear armed write failures, flush the transport
        for r in 0..n {
            self.replicas[r].disk.with(|d| {
                d.fail_writes.clear();
                d.disk_full = false;
            });
        }
        for m in self.queue.iter_mut() {
            m.due = 0;
        }
        self.deliver_due()?;
        for r in 0..n {
            if self.replicas[r].time_travel {
                self.op_refresh(r, 1)?;
            }
            let staging = { let m = self.live(r); self.call("has_staging", || m.has_staging())? };
            if staging {
                if commit {
                    self.op_commit(r, &None)?;
                } else {
                    self.op_unstage(r)?;
                }
            }
            self.op_refresh(r, 0)?;
        }
        let mut quiet_round = None;
        for round in 0..(n + 2) {
            let mut learned = 0usize;
            for a in 0..n {
                for b in 0..n {
                    if a == b {
                        continue;
                    }
                    let (x, y) = (self.live(a), self.live(b));
                    self.replicas[a].disk.take_log();
                    let res = self.call("meld", || x.meld(y))?;
                    let log = self.replicas[a].disk.take_log();
                    self.scan_writes(a, &log)?;
                    match res {
                        Ok(l) => learned += l.len(),
                        Err(e) => {
                            if self.is(&["C01"]) {
                                viol!(self, "meld-succeeds", "meld-err", "meld failed without any storage fault: {}", e);
                            }
                            return Err(Stop::Inconclusive(format!("meld failed: {}", e)));
                        }
                    }
                }
            }
            for r in 0..n {
                self.op_refresh(r, 0)?;
            }
            if learned == 0 {
                quiet_round = Some(round);
                break;
            }
        }
        self.bump("probe.converge");
        if self.is(&["C01", "C07", "C19", "C06", "C09"]) {
            if quiet_round.is_none() {
                viol!(self, "exchange-terminates", "converge-not-quiet", "after {} rounds of all-pairs meld + refresh replicas still learn new items", n + 2);
            }
            let d0 = self.digest_of(0)?;
            let i0 = self.replicas[0].disk.items();
            for r in 1..n {
                let d = self.digest_of(r)?;
                if self.replicas[r].disk.items() != i0 {
                    viol!(self, "exchange-reaches-common-state", "converge-items-differ", "after exchange until quiescence replicas 0 and {} hold different items: only-0 {:?} only-{} {:?}", r,
                        i0.keys().filter(|k| !self.replicas[r].disk.keys().contains(*k)).collect::<Vec<_>>(), r,
                        self.replicas[r].disk.keys().iter().filter(|k| !i0.contains_key(*k)).collect::<Vec<_>>());
                }
                if d != d0 {
                    viol!(self, "exchange-reaches-common-state", "converge-differs", "after exchange until quiescence replicas 0 and {} differ: {}", r, diff_digest(&d0, &d));
                }
            }
        }
        Ok(())
    }

    fn partitioned(&self, a: usize, b: usize) -> bool {
        match self.partition {
            Some(m) => ((m >> a) & 1) != ((m >> b) & 1),
            None => false,
        }
    }

    // ---------------------------------------------------------------- update / read

    fn op_update(&mut self, r: usize, doc: &Value, twice: bool) -> Res {
        let obj = match doc.as_object() {
            Some(o) => o.clone(),
            None => return Ok(()),
        };
        if self.replicas[r].time_travel && !self.past_edits() {
            return Ok(());
        }
        let m = self.live(r);
        let o2 = obj.clone();
        match self.call("update", || m.update(o2))? {
            Ok(_) => {}
            Err(e) => {
                if self.is(&["C04"]) {
                    viol!(self, "update-accepts-wellformed", "update-err", "update of a well-formed document failed: {}", e);
                }
                return Err(Stop::Inconclusive(format!("update failed: {}", e)));
            }
        }
        self.replicas[r].model_doc = Some(doc.clone());
        self.check_read_matches_model(r, "after-update")?;
        self.record_array_orders(r, doc)?;
        if twice {
            let m = self.live(r);
            let before = self.call("stage", || (digest(m), m.stage().map(|s| canon_stage(&s)).map_err(|e| e.to_string())))?;
            let o3 = obj.clone();
            let _ = self.call("update", || m.update(o3))?;
            let after = self.call("stage", || (digest(m), m.stage().map(|s| canon_stage(&s)).map_err(|e| e.to_string())))?;
            self.bump("probe.update_twice");
            if self.is(&["C04"]) {
                let (d0, s0) = before;
                let (d1, s1) = after;
                let d0 = d0.map_err(|c| self.crash("digest", c))?;
                let d1 = d1.map_err(|c| self.crash("digest", c))?;
                if d0 != d1 {
                    viol!(self, "update-idempotent", "idempotence-digest", "second identical update changed the state: {}", diff_digest(&d0, &d1));
                }
                if s0 != s1 {
                    viol!(self, "update-idempotent", "idempotence-stage", "second identical update changed the staged export: {} vs {}", trunc(&json!(s0)), trunc(&json!(s1)));
                }
            }
        }
        Ok(())
    }

    fn op_read(&mut self, r: usize, what: u8) -> Res {
        let m = self.live(r);
        match what {
            1 => {
                let _ = self.call("has_staging", || m.has_staging())?;
            }
            2 => {
                let _ = self.call("in_conflict", || m.in_conflict())?;
            }
            w if w >= 16 => {
                // read starting from any identifier the replica knows (deleted objects and array
                // descriptors included)
                let objs: Vec<String> = self.call("get_all_objects", || m.get_all_objects().into_iter().collect())?;
                if !objs.is_empty() {
                    let root = objs[(w as usize - 16) % objs.len()].clone();
                    let _ = self.call("read_from", || m.read(Some(&root)).map(|_| ()).map_err(|e| e.to_string()))?;
                    let _ = self.call("get_value_winner", || m.get_value(&root, None).map(|_| ()).map_err(|e| e.to_string()))?;
                    self.bump("probe.read_from_object");
                }
            }
            _ => {
                let _ = self.call("read", || read_doc(m))?;
            }
        }
        Ok(())
    }

    /// C04: what `read` returns is the document last submitted.
    fn check_read_matches_model(&mut self, r: usize, when: &str) -> Res {
        if !self.is(&["C04", "C16"]) {
            return Ok(());
        }
        let doc = match &self.replicas[r].model_doc {
            Some(d) => d.clone(),
            None => return Ok(()),
        };
        let m = self.live(r);
        let (rd, arr_conf) = self.call("read", || (m.read(None), m.in_conflict().iter().any(|u| u.starts_with('^'))))?;
        let rd = match rd {
            Ok(d) => Value::Object(d),
            Err(e) => viol!(self, "read-equals-submitted", "read-err", "{}: read failed after update: {}", when, e),
        };
        if !arr_conf {
            self.bump("probe.read_checked_exact");
            if let Err(e) = docgen::same_modulo_ids(&doc, &rd) {
                if docgen::has_bang_single_object(&doc) {
                    viol!(self, "read-equals-submitted", "read-differs:single-object-id-starts-with-bang", "{}: a flattened single object whose identifier starts with '!' is read back as a string: {}\n submitted={}\n read={}", when, e, trunc(&doc), trunc(&rd));
                }
                viol!(self, "read-equals-submitted", "read-differs", "{}: read differs from the submitted document: {}\n submitted={}\n read={}", when, e, trunc(&doc), trunc(&rd));
            }
        } else {
            self.bump("probe.read_checked_array_conflict");
            let want = docgen::tracked_objects(&docgen::with_ids(&doc)).map_err(|e| Stop::Inconclusive(format!("generator produced an ill-formed document: {}", e)))?;
            let got = match docgen::tracked_objects(&rd) {
                Ok(g) => g,
                Err(e) => viol!(self, "read-objects-once", "read-dup", "{}: {} (array in conflict)\n read={}", when, e, trunc(&rd)),
            };
            if want != got {
                let missing: Vec<&String> = want.keys().filter(|k| !got.contains_key(*k)).collect();
                let extra: Vec<&String> = got.keys().filter(|k| !want.contains_key(*k)).collect();
                if docgen::has_bang_single_object(&doc) {
                    viol!(self, "read-equals-submitted", "read-differs:single-object-id-starts-with-bang", "{}: a flattened single object whose identifier starts with '!' is not read back as an object (array in conflict): missing {:?} extra {:?}\n submitted={}\n read={}", when, missing, extra, trunc(&doc), trunc(&rd));
                }
                viol!(self, "read-objects-once", "read-objects", "{}: with an array in conflict the objects read differ from those submitted: missing {:?} extra {:?}\n submitted={}\n read={}", when, missing, extra, trunc(&doc), trunc(&rd));
            }
        }
        Ok(())
    }

    /// C16 user model: remember the submitted order of every flattened array under the
    /// revision identifier the replica reports for its descriptor.
    fn record_array_orders(&mut self, r: usize, doc: &Value) -> Res {
        if !self.is(&["C16"]) {
            return Ok(());
        }
        let with = docgen::with_ids(doc);
        let mut found: Vec<(String, Vec<String>)> = vec![];
        fn walk(o: &Map<String, Value>, out: &mut Vec<(String, Vec<String>)>) {
            let id = o.get("_id").and_then(|x| x.as_str()).unwrap_or("").to_string();
            for (k, v) in o {
                if k.ends_with(refstore::FLAT) {
                    match v {
                        Value::Array(a) => {
                            let ids: Vec<String> = a.iter().filter_map(|e| e.get("_id").and_then(|x| x.as_str()).map(|s| s.to_string())).collect();
                            out.push((format!("^{}@{}", id, k), ids));
                            for e in a {
                                if let Some(eo) = e.as_object() {
                                    walk(eo, out);
                                }
                            }
                        }
                        Value::Object(eo) => walk(eo, out),
                        _ => {}
                    }
                }
            }
        }
        if let Some(o) = with.as_object() {
            walk(o, &mut found);
        }
        let m = self.live(r);
        let winners: Vec<(String, Vec<String>, Option<String>)> = self.call("get_winner", || found.into_iter().map(|(u, ids)| { let w = m.get_winner(&u).ok(); (u, ids, w) }).collect())?;
        let arr_conf = self.array_in_conflict(r)?;
        for (u, ids, w) in winners {
            // hook 1: the edit script between every successive pair reconstructs the new version
            if let Some(old) = self.replicas[r].last_orders.get(&u).cloned() {
                crate::treecheck::diff_patch_contract(self, &u, &old, &ids)?;
            }
            self.replicas[r].last_orders.insert(u.clone(), ids.clone());
            if let Some(w) = w {
                if !arr_conf {
                    self.replicas[r].array_orders.insert((u, w), ids);
                }
            }
        }
        Ok(())
    }

    // ---------------------------------------------------------------- commit

    fn op_commit(&mut self, r: usize, info: &Option<Value>) -> Res {
        let m = self.live(r);
        let info_map = info.as_ref().and_then(|v| v.as_object().cloned());
        let (staging, heads_before, before) = self.call("pre-commit", || (m.has_staging(), heads_of(m), digest(m)))?;
        let before = before.map_err(|c| self.crash("digest", c))?;
        let arr_conf_before = before["in_conflict"].as_array().map_or(false, |a| a.iter().any(|u| u.as_str().map_or(false, |s| s.starts_with('^'))));
        let obj_conf_before = before["in_conflict"].as_array().map_or(false, |a| a.iter().any(|u| u.as_str().map_or(false, |s| !s.starts_with('^'))));
        let keys_before = self.replicas[r].disk.keys();
        self.replicas[r].disk.take_log();
        let res = self.call("commit", || m.commit(info_map))?;
        let log = self.replicas[r].disk.take_log();
        self.scan_writes(r, &log)?;
        let writes: Vec<(&String, &Vec<u8>, &WriteOutcome)> = log.iter().filter_map(|c| if let Call::Write { key, data, outcome } = c { Some((key, data, outcome)) } else { None }).collect();
        match res {
            Ok(None) => {
                if self.is(&["C04", "C15"]) {
                    if staging {
                        viol!(self, "commit-reports", "commit-none-with-stage", "commit returned None although changes were staged");
                    }
                    if !writes.is_empty() || self.replicas[r].disk.keys() != keys_before {
                        viol!(self, "empty-commit-writes-nothing", "empty-commit-wrote", "commit with nothing staged wrote {} item(s): {:?}", writes.len(), writes.iter().map(|w| w.0).collect::<Vec<_>>());
                    }
                }
                self.bump("probe.commit_nothing_staged");
                Ok(())
            }
            Ok(Some(ids)) => {
                self.replicas[r].commits += 1;
                self.bump("probe.commit_ok");
                if arr_conf_before {
                    self.bump("probe.commit_with_array_conflict");
                }
                if obj_conf_before {
                    self.bump("probe.commit_with_object_conflict");
                }
                if self.replicas[r].failed_commit_pending {
                    self.bump("probe.retry_after_failed_commit");
                    self.replicas[r].failed_commit_pending = false;
                }
                let ids: BTreeSet<String> = ids.iter().map(|d| d.to_string()).collect();
                for (k, _, o) in &writes {
                    if **o == WriteOutcome::Stored || **o == WriteOutcome::Existing {
                        self.replicas[r].seen.insert((*k).clone());
                    }
                }
                let after = self.digest_of(r)?;
                if self.is(&["C04", "C15"]) {
                    for (k, data, _) in writes.iter().filter(|w| w.0.ends_with(".delta")) {
                        let v: Value = serde_json::from_slice(data).unwrap_or(Value::Null);
                        if v.get("c").and_then(|c| c.as_array()).map_or(true, |a| a.is_empty()) {
                            viol!(self, "empty-commit-writes-nothing", "commit-wrote-block-without-changes", "commit reported {:?} and wrote {} although it records no change: {}", ids, k, trunc(&v));
                        }
                    }
                }
                if self.is(&["C13"]) {
                    let nd: Vec<&String> = writes.iter().filter(|w| w.0.ends_with(".delta")).map(|w| w.0).collect();
                    let np = writes.iter().filter(|w| w.0.ends_with(".pack")).count();
                    if nd.len() != 1 || np > 1 || writes.len() != nd.len() + np {
                        viol!(self, "commit-one-block", "commit-writes", "a successful commit wrote {:?}", writes.iter().map(|w| w.0).collect::<Vec<_>>());
                    }
                    let id = nd[0].trim_end_matches(".delta").to_string();
                    if ids != BTreeSet::from([id.clone()]) {
                        viol!(self, "commit-one-block", "commit-return", "commit returned {:?} but wrote {}", ids, id);
                    }
                    let m = self.live(r);
                    let did = delta_ids(&ids).into_iter().next();
                    let d = match did {
                        Some(did) => self.call("get_delta", || m.get_delta(&did).ok().flatten())?,
                        None => None,
                    };
                    let d = match d {
                        Some(d) => d,
                        None => viol!(self, "commit-one-block", "commit-get-delta", "get_delta({}) returned nothing right after commit", id),
                    };
                    let parents: BTreeSet<String> = d.parents.clone().unwrap_or_default().iter().map(|p| p.to_string()).collect();
                    if parents != heads_before {
                        viol!(self, "commit-parents", "commit-parents", "block {} has parents {:?} but the heads before the commit were {:?}", id, parents, heads_before);
                    }
                    let idx: u64 = id.split('-').next().unwrap().parse().unwrap_or(0);
                    for p in &parents {
                        let pi: u64 = p.split('-').next().unwrap().parse().unwrap_or(0);
                        if idx <= pi {
                            viol!(self, "commit-index", "commit-index", "block {} does not exceed parent {}", id, p);
                        }
                    }
                    let heads_after: BTreeSet<String> = after["heads"].as_array().unwrap().iter().map(|x| x.as_str().unwrap().to_string()).collect();
                    if heads_after != ids {
                        viol!(self, "commit-head", "commit-head", "after commit the heads are {:?}, expected {:?}", heads_after, ids);
                    }
                    let want_info = info.as_ref().and_then(|v| v.as_object().cloned());
                    if d.info != want_info {
                        viol!(self, "commit-info", "commit-info", "commit info reads back as {:?}, submitted {:?}", d.info, want_info);
                    }
                }
                if self.is(&["C15"]) && (after["staging"] != json!(false) || self.call("stage", || self.live(r).stage().ok().flatten())?.is_some()) {
                    viol!(self, "commit-clears-stage", "commit-stage-left", "after a successful commit something is still staged");
                }
                if self.is(&["C12"]) && before["doc"] != after["doc"] {
                    viol!(self, "commit-keeps-document", if arr_conf_before { "commit-changed-doc-arrayconflict" } else { "commit-changed-doc" },
                        "commit changed the visible document (array in conflict before: {}):\n before={}\n after={}", arr_conf_before, trunc(&before["doc"]), trunc(&after["doc"]));
                }
                if self.replicas[r].time_travel {
                    // a commit made in the past: the state is the one determined by the new block and its
                    // ancestors, and these heads can be travelled to later
                    self.bump("probe.commit_in_the_past");
                    if after["staging"] == json!(false) {
                        self.replicas[r].clean_digest = Some(after.clone());
                    }
                    if self.is(&["C14", "C13", "C02", "C05", "C01"]) {
                        let items: Items = {
                            let seen = &self.replicas[r].seen;
                            self.replicas[r].disk.items().into_iter().filter(|(k, _)| seen.contains(k)).collect()
                        };
                        let st = RefState::from_items_until(&items, Some(&ids));
                        if st.heads == ids {
                            self.compare_with_ref(r, &after, &st, "commit-in-the-past")?;
                            if !self.replicas[r].checkpoints.iter().any(|c| c.heads == ids) {
                                self.replicas[r].checkpoints.push(Checkpoint { heads: ids.clone(), digest: after.clone(), revs: BTreeMap::new() });
                            }
                        }
                    }
                    self.replicas[r].fresh = false;
                    return Ok(());
                }
                // A held-back foreign block may become complete through this very commit (same
                // objects, same pack): the committing replica learns that at its next refresh, a
                // fresh one at once. That is outside C03 ("the state the committing replica
                // exposed") and C01/C02 (which speak of refreshed replicas): compare only when
                // nothing is held back.
                let held_back = api::block_status(self.live(r)).values().any(|s| s != "applied");
                if after["staging"] == json!(false) {
                    self.replicas[r].clean_digest = Some(after.clone());
                }
                if held_back {
                    self.replicas[r].fresh = false;
                    self.bump("probe.commit_sync_skipped_held_back");
                    return Ok(());
                }
                // C03: a fresh replica on the same storage sees the same state
                if self.is(&["C03", "C17", "C09"]) {
                    self.check_reopen_equals_live(r, &after, "after-commit")?;
                }
                self.sync_point(r, "commit", Some(&after))?;
                Ok(())
            }
            Err(e) => {
                // an injected write failure is the only legitimate reason
                let failed = writes.iter().any(|w| *w.2 == WriteOutcome::Failed);
                self.bump("probe.commit_failed");
                if !failed {
                    if self.is(&["C09", "C03"]) {
                        viol!(self, "commit-succeeds", "commit-err", "commit failed without any storage fault: {}", e);
                    }
                    if self.is(&["C08"]) {
                        // C08 asks for a return, not for success: the history goes on from the state the
                        // refused commit leaves behind (stopping here hid F20 for a long time)
                        self.bump("probe.commit_refused_history_continues");
                        return Ok(());
                    }
                    return Err(Stop::Inconclusive(format!("commit failed without fault: {}", e)));
                }
                self.replicas[r].failed_commit_pending = true;
                for (k, _, o) in &writes {
                    if **o == WriteOutcome::Stored || **o == WriteOutcome::Existing {
                        self.replicas[r].seen.insert((*k).clone());
                    }
                }
                if self.is(&["C09", "C15"]) {
                    let after = self.digest_of(r)?;
                    if after["staging"] != json!(true) {
                        viol!(self, "failed-commit-keeps-stage", "failed-commit-lost-stage", "after a failed commit ({}) nothing is staged any more", e);
                    }
                    if after["doc"] != before["doc"] && !arr_conf_before {
                        viol!(self, "failed-commit-keeps-stage", "failed-commit-changed-doc", "a failed commit changed the document: {}", diff_digest(&before, &after));
                    }
                }
                Ok(())
            }
        }
    }

    /// C02 / C09: which blocks took effect is compared with the reference *before* the state is read:
    /// a block applied without its dependencies typically makes `read` abort, which would otherwise end
    /// the run as inconclusive before the comparison is reached.
    fn early_block_status_check(&mut self, r: usize, when: &str) -> Res {
        if !self.is(&["C02", "C09"]) || cfg!(feature = "real") {
            return Ok(());
        }
        let items: Items = {
            let seen = &self.replicas[r].seen;
            self.replicas[r].disk.items().into_iter().filter(|(k, _)| seen.contains(k)).collect()
        };
        let st = RefState::from_items(&items);
        self.check_block_status(r, &st, when)
    }

    /// C03 / C01(b): `Melda::new` on (a copy of) the items this replica has seen equals the live state.
    fn check_reopen_equals_live(&mut self, r: usize, live_digest: &Value, when: &str) -> Res {
        let items: Items = {
            let seen = &self.replicas[r].seen;
            self.replicas[r].disk.items().into_iter().filter(|(k, _)| seen.contains(k)).collect()
        };
        let copy = DiskRef::from_items(items, self.cfg.list_seed ^ self.step as u64);
        let store = copy.store();
        let fresh = self.call("open", || Melda::new(store))?;
        let fresh = match fresh {
            Ok(f) => f,
            Err(e) => viol!(self, "reopen", "reopen-err", "{}: opening a fresh replica on the same storage failed: {}", when, e),
        };
        let fd = digest(&fresh).map_err(|c| self.crash("digest(fresh)", c))?;
        self.bump("probe.reopen_compared");
        if &fd != live_digest {
            viol!(self, "reopen-equals-live", format!("reopen-differs:{}", diff_digest(live_digest, &fd).split(|c| c == ':' || c == '[').next().unwrap_or("")),
                "{}: a replica freshly opened on the same storage differs from the live one: {}\n live={}\n fresh={}", when, diff_digest(live_digest, &fd), trunc(live_digest), trunc(&fd));
        }
        Ok(())
    }

    // ---------------------------------------------------------------- meld / transport

    fn op_meld(&mut self, r: usize, from: usize) -> Res {
        if r == from || from >= self.replicas.len() {
            return Ok(());
        }
        if self.partitioned(r, from) {
            self.bump("fault.partition_blocked");
            return Ok(());
        }
        let (a, b) = (self.live(r), self.live(from));
        let (da, db) = if self.is(&["C12"]) { (Some(self.digest_of(r)?), Some(self.digest_of(from)?)) } else { (None, None) };
        let lacked: BTreeSet<String> = self.replicas[from].disk.keys().difference(&self.replicas[r].disk.keys()).cloned().collect();
        self.replicas[r].disk.take_log();
        self.replicas[from].disk.take_log();
        let res = self.call("meld", || a.meld(b))?;
        let log = self.replicas[r].disk.take_log();
        let log_from = self.replicas[from].disk.take_log();
        self.scan_writes(r, &log)?;
        if log_from.iter().any(|c| matches!(c, Call::Write { .. })) && self.is(&["C11", "C12"]) {
            viol!(self, "meld-source-untouched", "meld-wrote-source", "meld wrote to the source replica's storage");
        }
        match res {
            Ok(list) => {
                self.add("probe.meld_items", list.len() as u64);
                if !lacked.is_empty() && list.is_empty() {
                    self.bump("probe.meld_nothing_of_lacked");
                }
                if self.is(&["C09", "C11"]) {
                    // every reported item is durable with the source's bytes; nothing unreported appeared
                    let now = self.replicas[r].disk.items();
                    let src = self.replicas[from].disk.items();
                    for k in &list {
                        match (now.get(k), src.get(k)) {
                            (Some(x), Some(y)) if x == y => {}
                            (Some(_), Some(_)) => viol!(self, "meld-byte-identical", "meld-bytes-differ", "meld stored {} with bytes that differ from the source's", k),
                            (None, _) => viol!(self, "meld-reports-durable", "meld-reported-missing", "meld reported {} but it is not in storage", k),
                            (_, None) => viol!(self, "meld-reports-durable", "meld-reported-unknown", "meld reported {} which the source does not hold", k),
                        }
                    }
                }
            }
            Err(e) => {
                let failed = log.iter().any(|c| matches!(c, Call::Write { outcome: WriteOutcome::Failed, .. }));
                if !failed && self.is(&["C09"]) {
                    viol!(self, "meld-succeeds", "meld-err", "meld failed without any storage fault: {}", e);
                }
            }
        }
        if let (Some(da), Some(db)) = (da, db) {
            let (da2, db2) = (self.digest_of(r)?, self.digest_of(from)?);
            if da != da2 || db != db2 {
                viol!(self, "meld-keeps-state", "meld-changed-state", "meld without refresh changed a replica's visible state: {} / {}", diff_digest(&da, &da2), diff_digest(&db, &db2));
            }
        }
        Ok(())
    }

    fn op_send(&mut self, from: usize, to: usize, sel: u32, delay: u32, dup: bool, drop: bool) -> Res {
        if from == to || from >= self.replicas.len() || to >= self.replicas.len() {
            return Ok(());
        }
        let src = self.replicas[from].disk.items();
        let have = self.replicas[to].disk.keys();
        let pending: BTreeSet<&String> = self.queue.iter().filter(|m| m.to == to).map(|m| &m.key).collect();
        let mut cands: Vec<&String> = src.keys().filter(|k| !have.contains(*k) && !pending.contains(k)).collect();
        if cands.is_empty() {
            cands = src.keys().filter(|k| !have.contains(*k)).collect();
        }
        if cands.is_empty() {
            return Ok(());
        }
        let key = cands[sel as usize % cands.len()].clone();
        if self.partitioned(from, to) {
            self.bump("fault.partition_blocked");
            return Ok(());
        }
        if drop {
            self.bump("fault.msg_drop");
            return Ok(());
        }
        let bytes = src[&key].clone();
        self.seq += 1;
        self.queue.push(Msg { to, key: key.clone(), bytes: bytes.clone(), due: self.tick + delay as u64, seq: self.seq });
        if delay > 0 {
            self.bump("fault.msg_delay");
        }
        if dup {
            self.seq += 1;
            self.queue.push(Msg { to, key, bytes, due: self.tick + delay as u64 + 1 + (sel % 3) as u64, seq: self.seq });
            self.bump("fault.msg_dup");
        }
        self.deliver_due()
    }

    fn op_sendall(&mut self, from: usize, to: usize) -> Res {
        if from == to || from >= self.replicas.len() || to >= self.replicas.len() || self.partitioned(from, to) {
            return Ok(());
        }
        let src = self.replicas[from].disk.items();
        for (k, v) in src {
            self.deliver(to, &k, &v)?;
        }
        self.bump("probe.sendall");
        Ok(())
    }

    fn op_tick(&mut self) -> Res {
        self.tick += 1;
        self.deliver_due()
    }

    fn deliver_due(&mut self) -> Res {
        let mut due: Vec<Msg> = vec![];
        let mut rest: Vec<Msg> = vec![];
        for m in std::mem::take(&mut self.queue) {
            if m.due <= self.tick {
                due.push(m)
            } else {
                rest.push(m)
            }
        }
        self.queue = rest;
        due.sort_by_key(|m| (m.due, m.seq));
        for m in due {
            self.deliver(m.to, &m.key, &m.bytes)?;
        }
        Ok(())
    }

    /// A file-sync tool drops one item into a replica's storage (write-once).
    fn deliver(&mut self, to: usize, key: &str, bytes: &[u8]) -> Res {
        let existing = self.replicas[to].disk.with(|d| d.map.get(key).cloned());
        match existing {
            Some(old) => {
                self.bump("probe.deliver_duplicate");
                if old != bytes && self.is(&["C11"]) {
                    viol!(self, "no-write-conflict", "deliver-conflict", "delivery of {} met an existing item with different bytes", key);
                }
            }
            None => {
                // causal-order probes
                if key.ends_with(".delta") {
                    if let Some(b) = refstore::parse_block(key, bytes) {
                        let have = self.replicas[to].disk.keys();
                        if b.parents.iter().any(|p| !have.contains(&format!("{}.delta", p))) {
                            self.bump("probe.child_delivered_before_parent");
                            self.nontrivial = true;
                        }
                        if b.packs.iter().any(|p| !have.contains(&format!("{}.pack", p))) {
                            self.bump("probe.block_before_pack");
                            self.nontrivial = true;
                        }
                    }
                }
                self.replicas[to].disk.put(key, bytes);
                self.bump("probe.delivered");
                self.note_item(key, bytes)?;
            }
        }
        Ok(())
    }

    // ---------------------------------------------------------------- refresh / reload / restart

    fn op_refresh(&mut self, r: usize, kind: u8) -> Res {
        let m_staging = { let m = self.live(r); self.call("has_staging", || m.has_staging())? };
        let before = if m_staging || self.is(&["C12", "C15"]) { Some(self.digest_of(r)?) } else { None };
        let status_before = api::block_status(self.live(r));
        let applied_before: BTreeSet<String> = status_before.iter().filter(|(_, s)| s.as_str() == "applied").map(|(k, _)| k.clone()).collect();
        let keys_now = self.replicas[r].disk.keys();
        // the replica has seen every stored item and applied every block it knows: storage holds nothing new
        let nothing_unapplied_before = !self.replicas[r].time_travel && keys_now == self.replicas[r].seen && status_before.values().all(|s| s == "applied")
            && keys_now.iter().filter(|k| k.ends_with(".delta")).all(|k| applied_before.contains(k.trim_end_matches(".delta")));
        let api_name = if kind == 0 { "refresh" } else { "reload" };
        let res = {
            let rep = &mut self.replicas[r];
            let m = rep.live.as_mut().unwrap();
            guard(|| if kind == 0 { m.refresh() } else { m.reload() })
        };
        let res = res.map_err(|c| self.crash(api_name, c))?;
        self.replicas[r].disk.take_log();
        if m_staging {
            self.bump("probe.refresh_with_stage");
            if self.is(&["C15"]) {
                let after = self.digest_of(r)?;
                match &res {
                    Ok(()) => viol!(self, "refresh-refuses-with-stage", "refresh-dropped-stage", "{} succeeded although changes were staged", api_name),
                    Err(_) => {
                        if Some(&after) != before.as_ref() {
                            viol!(self, "refresh-refuses-with-stage", "refused-refresh-changed-state", "{} refused to run but changed the state: {}", api_name, diff_digest(before.as_ref().unwrap(), &after));
                        }
                    }
                }
            }
            return Ok(());
        }
        match res {
            Ok(()) => {
                self.replicas[r].seen = keys_now;
                if self.replicas[r].time_travel && kind == 0 {
                    self.bump("probe.refresh_after_time_travel");
                }
                self.replicas[r].time_travel = false;
                self.replicas[r].fresh = true;
                self.early_block_status_check(r, api_name)?;
                let after = self.digest_of(r)?;
                if self.is(&["C12"]) {
                    // nothing new to apply => nothing may change
                    let st = RefState::from_items(&self.replicas[r].disk.items());
                    if (st.complete == applied_before || nothing_unapplied_before) && before.as_ref().map_or(false, |b| b["doc"] != after["doc"]) {
                        viol!(self, "idle-refresh-keeps-document", "refresh-changed-doc", "{} with nothing new in storage changed the document: {}", api_name, diff_digest(before.as_ref().unwrap(), &after));
                    }
                }
                self.sync_point(r, api_name, Some(&after))
            }
            Err(e) => {
                if self.is(&["C01", "C02"]) {
                    viol!(self, "refresh-succeeds", "refresh-err", "{} failed on undamaged storage: {}", api_name, e);
                }
                if self.is(&["C12", "C15"]) {
                    // nothing was staged, storage is undamaged: whatever the call returns, it must not
                    // change (here: wipe) what the replica shows
                    let after = self.digest_of(r)?;
                    if before.as_ref().map_or(false, |b| b["doc"] != after["doc"]) || (before.is_none() && after["doc"].get("err").is_some() && self.replicas[r].commits > 0) {
                        viol!(self, "failed-reload-keeps-document", "failed-reload-changed-doc", "{} returned an error ({}) although nothing was staged, and changed the visible document:\n before={}\n after={}", api_name, e, before.as_ref().map(|b| trunc(&b["doc"])).unwrap_or_default(), trunc(&after["doc"]));
                    }
                }
                Err(Stop::Inconclusive(format!("{} failed: {}", api_name, e)))
            }
        }
    }

    fn op_restart(&mut self, r: usize) -> Res {
        // only durable state survives: staged changes are lost by definition
        self.replicas[r].live = None;
        if crate::backends::persistent(&self.cfg.backend) {
            // the backend object dies with the process; a new one is constructed on the same storage
            self.replicas[r].disk.with(|d| d.backend = None);
            let path = self.backend_path(r);
            match crate::backends::open(&self.cfg.backend, &path) {
                Ok(b) => self.replicas[r].disk.with(|d| d.backend = Some(b)),
                Err(c) => viol!(self, "backend-reopen", format!("backend-reopen-{}", c.class()), "re-opening backend {} on its existing storage does not return: {}", self.cfg.backend, c.text()),
            }
            self.bump("fault.backend_reopen");
        }
        let store = self.replicas[r].disk.store();
        let res = self.call("open", || Melda::new(store))?;
        self.replicas[r].disk.take_log();
        self.bump("fault.crash_restart");
        match res {
            Ok(m) => {
                self.replicas[r].live = Some(m);
                self.replicas[r].fresh = true;
                self.replicas[r].seen = self.replicas[r].disk.keys();
                self.replicas[r].time_travel = false;
                self.replicas[r].model_doc = None;
                self.replicas[r].failed_commit_pending = false;
                self.early_block_status_check(r, "restart")?;
                self.sync_point(r, "restart", None)
            }
            Err(e) => {
                if self.is(&["C01", "C03", "C09"]) {
                    viol!(self, "open-succeeds", "open-err", "opening a replica on its own undamaged storage failed: {}", e);
                }
                Err(Stop::Inconclusive(format!("open failed: {}", e)))
            }
        }
    }

    fn op_reload_until(&mut self, r: usize, sel: u32, of: usize, extra: u32) -> Res {
        let of = if of < self.replicas.len() { of } else { r };
        if self.replicas[of].checkpoints.is_empty() {
            return Ok(());
        }
        let n = self.replicas[of].checkpoints.len();
        // u32::MAX selects the newest checkpoint
        let idx = if sel == u32::MAX { n - 1 } else if sel == u32::MAX - 1 { n.saturating_sub(2) } else { sel as usize % n };
        let mut cp = self.replicas[of].checkpoints[idx].clone();
        if cp.heads.is_empty() {
            return Ok(());
        }
        let mut requested = cp.heads.clone();
        if extra > 0 && idx > 0 {
            // a hand-built request: the heads of an older head set in addition (ancestors of the
            // chosen ones, since what a replica has applied only grows)
            let older = self.replicas[of].checkpoints[(extra as usize - 1) % idx].heads.clone();
            requested.extend(older);
        }
        if of != r || requested != cp.heads {
            // a head set another replica had, or a redundant request: it must be fully present here,
            // and its state is the one determined by the blocks (the reference interpreter says which
            // blocks are the heads of that state)
            let items = self.replicas[r].disk.items();
            let full = RefState::from_items(&items);
            if !requested.iter().all(|h| full.complete.contains(h)) {
                if requested.iter().any(|h| !items.contains_key(&format!("{}.delta", h))) {
                    // a block this replica does not hold at all (a peer's commit not yet received): the
                    // call is refused; whatever the refusal leaves behind, the next refresh / reload
                    // shows the state of the storage again (checked at that sync point)
                    let m = self.live(r);
                    if !self.call("has_staging", || m.has_staging())? {
                        let ids = delta_ids(&requested);
                        let res = self.call("reload_until", || m.reload_until(&ids).map_err(|e| e.to_string()))?;
                        self.replicas[r].disk.take_log();
                        self.bump("probe.reload_until_unknown_anchor");
                        if res.is_ok() && self.is(&["C14", "C13"]) {
                            viol!(self, "time-travel", "reload-until-unknown-anchor-ok", "reload_until({:?}) succeeded although {:?} is not in this replica's storage", requested, requested.iter().find(|h| !items.contains_key(&format!("{}.delta", h))));
                        }
                        self.replicas[r].time_travel = true;
                        self.replicas[r].fresh = false;
                        self.replicas[r].model_doc = None;
                        self.replicas[r].clean_digest = Some(self.digest_of(r)?);
                    }
                }
                return Ok(());
            }
            let st = RefState::from_items_until(&items, Some(&requested));
            if st.heads != cp.heads {
                return Ok(()); // not the state of that checkpoint (cannot happen while applied sets only grow)
            }
            if of != r {
                cp.revs.clear();
                self.bump("probe.reload_until_foreign_heads");
            }
            if requested != cp.heads {
                self.bump("probe.reload_until_redundant_anchors");
            }
        }
        if self.replicas[r].time_travel {
            self.bump("probe.reload_until_consecutive");
        }
        let m = self.live(r);
        let staging = self.call("has_staging", || m.has_staging())?;
        let before = self.digest_of(r)?;
        let ids = delta_ids(&requested);
        let res = self.call("reload_until", || m.reload_until(&ids))?;
        self.replicas[r].disk.take_log();
        if staging {
            if self.is(&["C15"]) {
                let after = self.digest_of(r)?;
                if res.is_ok() || after != before {
                    viol!(self, "refresh-refuses-with-stage", "reload-until-dropped-stage", "reload_until with staged changes: ok={} state changed={}", res.is_ok(), after != before);
                }
            }
            return Ok(());
        }
        if let Err(e) = res {
            if self.is(&["C14"]) {
                viol!(self, "time-travel", "reload-until-err", "reload_until({:?}) failed: {}", requested, e);
            }
            return Err(Stop::Inconclusive(format!("reload_until failed: {}", e)));
        }
        self.replicas[r].time_travel = true;
        self.replicas[r].model_doc = None;
        self.replicas[r].clean_digest = Some(self.digest_of(r)?);
        self.bump("probe.reload_until");
        if cp.heads.len() > 1 {
            self.bump("probe.reload_until_multihead");
        }
        if self.is(&["C13"]) {
            // the commit graph monitors also hold in a time-travelled state
            let st = RefState::from_items_until(&self.replicas[r].disk.items(), Some(&cp.heads));
            self.check_block_status(r, &st, "reload_until")?;
            self.check_graph(r, &st, "reload_until")?;
            self.bump("probe.graph_checked_in_time_travel");
        }
        if self.is(&["C14"]) {
            let after = self.digest_of(r)?;
            if after != cp.digest {
                viol!(self, "time-travel-equals-checkpoint", "timetravel-differs", "reload_until({:?}) differs from what the replica showed when these were its heads: {}", requested, diff_digest(&cp.digest, &after));
            }
            let st = RefState::from_items_until(&self.replicas[r].disk.items(), Some(&cp.heads));
            self.compare_with_ref(r, &after, &st, "reload_until")?;
            self.check_revs_retrievable(r, &cp)?;
            // same through the constructor
            let store = self.replicas[r].disk.store();
            let nu = self.call("new_until", || Melda::new_until(store, &ids))?;
            self.replicas[r].disk.take_log();
            match nu {
                Ok(m2) => {
                    let d2 = digest(&m2).map_err(|c| self.crash("digest(new_until)", c))?;
                    if d2 != cp.digest {
                        viol!(self, "time-travel-equals-checkpoint", "new-until-differs", "new_until({:?}) differs from the checkpoint: {}", requested, diff_digest(&cp.digest, &d2));
                    }
                }
                Err(e) => viol!(self, "time-travel", "new-until-err", "new_until({:?}) failed: {}", requested, e),
            }
        }
        Ok(())
    }

    fn check_revs_retrievable(&mut self, r: usize, cp: &Checkpoint) -> Res {
        let m = self.live(r);
        for (uuid, revs) in &cp.revs {
            for (rev, (val, parent)) in revs {
                let (v, p) = self.call("get_value", || (m.get_value(uuid, Some(rev)), m.get_parent_revision(uuid, rev)))?;
                match v {
                    Ok(v) if &Value::Object(v.clone()) == val => {}
                    Ok(v) => viol!(self, "history-retrievable", "history-value", "revision {} of {} now has value {} (was {})", rev, uuid, trunc(&Value::Object(v)), trunc(val)),
                    Err(e) => viol!(self, "history-retrievable", "history-lost", "revision {} of {} is no longer retrievable: {}", rev, uuid, e),
                }
                match p {
                    Ok(p) if &p == parent => {}
                    other => viol!(self, "history-retrievable", "history-parent", "revision {} of {} now has parent {:?} (was {:?})", rev, uuid, other.map_err(|e| e.to_string()), parent),
                }
                self.bump("probe.history_rev_checked");
            }
        }
        Ok(())
    }

    // ---------------------------------------------------------------- resolve / stage

    fn op_resolve(&mut self, r: usize, obj_sel: u32, leaf_sel: u32) -> Res {
        if self.replicas[r].time_travel {
            return Ok(());
        }
        let m = self.live(r);
        let conf: Vec<String> = self.call("in_conflict", || m.in_conflict().into_iter().collect())?;
        if conf.is_empty() {
            return Ok(());
        }
        let uuid = conf[obj_sel as usize % conf.len()].clone();
        let (w, others) = self.call("get_conflicting", || (m.get_winner(&uuid), m.get_conflicting(&uuid)))?;
        let (w, others) = match (w, others) {
            (Ok(w), Ok(o)) => (w, o),
            _ => return Ok(()),
        };
        let mut leaves: Vec<String> = others.into_iter().collect();
        leaves.push(w.clone());
        leaves.sort();
        let chosen = leaves[leaf_sel as usize % leaves.len()].clone();
        let chosen_is_winner = chosen == w;
        let chosen_deleted = Rev::parse(&chosen).map_or(false, |x| x.is_deleted());
        let before = self.digest_of(r)?;
        let val_before = self.call("get_value", || m.get_value(&uuid, Some(&chosen)))?;
        // order of the chosen leaf per the reference, when the leaf is committed history
        let chosen_order: Option<Vec<String>> = if uuid.starts_with('^') && self.is(&["C07"]) {
            let items: Items = {
                let seen = &self.replicas[r].seen;
                self.replicas[r].disk.items().into_iter().filter(|(k, _)| seen.contains(k)).collect()
            };
            let st = RefState::from_items(&items);
            st.array_order(&uuid, &chosen).ok().map(|o| o.iter().filter_map(|x| x.as_str().map(|s| s.to_string())).collect())
        } else {
            None
        };
        let res = self.call("resolve_as", || m.resolve_as(&uuid, &chosen))?;
        self.bump("probe.resolve");
        if uuid.starts_with('^') {
            self.bump("probe.resolve_array");
        }
        if chosen_deleted {
            self.bump("probe.resolve_to_deletion");
        }
        if leaves.len() >= 3 {
            self.bump("probe.resolve_3plus_leaves");
        }
        self.replicas[r].model_doc = None;
        let after = self.digest_of(r)?;
        if self.is(&["C07"]) {
            if let Err(e) = &res {
                viol!(self, "resolve-succeeds", "resolve-err", "resolve_as({}, {}) failed: {}", uuid, chosen, e);
            }
            if after["in_conflict"].as_array().unwrap().iter().any(|x| x.as_str() == Some(&uuid)) {
                viol!(self, "resolve-removes-conflict", "still-in-conflict", "{} is still in conflict after resolve_as(.., {})", uuid, chosen);
            }
            if chosen_is_winner && before["doc"] != after["doc"] {
                viol!(self, "resolve-winner-keeps-document", "resolve-winner-changed-doc", "resolving {} in favour of the current winner {} changed the document:\n before={}\n after={}", uuid, chosen, trunc(&before["doc"]), trunc(&after["doc"]));
            }
            if let (true, Some(order)) = (uuid.starts_with('^') && !chosen_deleted, &chosen_order) {
                // the array shows the chosen version's live elements in the chosen version's order
                if let Some((owner, key)) = uuid[1..].rsplit_once('@') {
                    if let Some(arr) = find_tracked(&after["doc"]["ok"], owner).and_then(|o| o.get(key).and_then(|x| x.as_array().cloned())) {
                        let got: Vec<String> = arr.iter().filter_map(|e| e.get("_id").and_then(|x| x.as_str()).map(|s| s.to_string())).collect();
                        let want: Vec<&String> = order.iter().filter(|e| got.contains(e)).collect();
                        let have: Vec<&String> = got.iter().filter(|e| order.contains(e)).collect();
                        self.bump("probe.resolve_array_order_checked");
                        if want != have {
                            viol!(self, "resolve-adopts-chosen", "resolved-array-order", "{} resolved as {}: the array reads {:?} but the chosen version's order is {:?}", uuid, chosen, got, order);
                        }
                        // elements of the other versions may stay (the resolution adopts the merge on the
                        // chosen base, which is what keeps commit's automatic resolution from changing the view)
                    }
                }
            }
            if !uuid.starts_with('^') {
                // the object's visible state equals the state at the chosen revision
                let obj = find_tracked(&after["doc"]["ok"], &uuid);
                if chosen_deleted {
                    if let Some(o) = obj {
                        viol!(self, "resolve-adopts-chosen", "resolved-deletion-visible", "{} resolved in favour of deletion {} but still appears in the document as {}", uuid, chosen, trunc(&o));
                    }
                    let nw = after["winners"][&uuid].as_str().unwrap_or("");
                    if !Rev::parse(nw).map_or(false, |x| x.is_deleted()) {
                        viol!(self, "resolve-adopts-chosen", "resolved-deletion-not-deleted", "{} resolved in favour of deletion {} but its winner is {}", uuid, chosen, nw);
                    }
                } else if let Ok(vb) = &val_before {
                    // the object may be unreachable from the root (not referenced); only compare when visible before or after
                    if let Some(o) = obj {
                        let mut got = o.as_object().cloned().unwrap_or_default();
                        got.remove("_id");
                        let plain_got: Map<String, Value> = got.into_iter().filter(|(k, _)| !k.ends_with(refstore::FLAT)).collect();
                        let plain_want: Map<String, Value> = vb.clone().into_iter().filter(|(k, _)| !k.ends_with(refstore::FLAT)).collect();
                        if plain_got != plain_want {
                            viol!(self, "resolve-adopts-chosen", "resolved-value-differs", "{} resolved as {}: document shows {} but the chosen revision holds {}", uuid, chosen, trunc(&json!(plain_got)), trunc(&json!(plain_want)));
                        }
                    }
                    let now = self.call("get_value", || self.live(r).get_value(&uuid, None))?;
                    match now {
                        Ok(n) if &n == vb => {}
                        other => viol!(self, "resolve-adopts-chosen", "resolved-winner-value", "{} resolved as {}: winner value is {:?} but the chosen revision holds {}", uuid, chosen, other.map(|x| trunc(&json!(x))).map_err(|e| e.to_string()), trunc(&json!(vb))),
                    }
                }
            }
        }
        Ok(())
    }

    fn op_unstage(&mut self, r: usize) -> Res {
        let had = { let m = self.live(r); self.call("has_staging", || m.has_staging())? };
        let res = {
            let rep = &mut self.replicas[r];
            let m = rep.live.as_mut().unwrap();
            guard(|| m.unstage())
        };
        let res = res.map_err(|c| self.crash("unstage", c))?;
        if had {
            self.bump("probe.unstage_with_stage");
        }
        self.replicas[r].model_doc = None;
        self.replicas[r].failed_commit_pending = false;
        if self.is(&["C15"]) {
            if let Err(e) = res {
                viol!(self, "unstage-succeeds", "unstage-err", "unstage failed: {}", e);
            }
            let after = self.digest_of(r)?;
            let st = self.call("stage", || self.live(r).stage())?;
            if after["staging"] != json!(false) || !matches!(st, Ok(None)) {
                viol!(self, "unstage-clears", "unstage-left-stage", "after unstage something is still staged: has_staging={} stage()={:?}", after["staging"], st.map(|s| s.map(|v| trunc(&v))).map_err(|e| e.to_string()));
            }
            if let Some(s0) = &self.replicas[r].clean_digest {
                if s0 != &after {
                    viol!(self, "unstage-restores", "unstage-differs", "unstage did not restore the last committed-or-refreshed state: {}\n clean={}\n after={}", diff_digest(s0, &after), trunc(s0), trunc(&after));
                }
                self.bump("probe.unstage_compared");
            }
        }
        Ok(())
    }

    fn op_stage_roundtrip(&mut self, r: usize) -> Res {
        let had = { let m = self.live(r); self.call("has_staging", || m.has_staging())? };
        if !had {
            return Ok(());
        }
        let s1 = self.digest_of(r)?;
        let exp = { let m = self.live(r); self.call("stage", || m.stage())? };
        let exp = match exp {
            Ok(e) => e,
            Err(e) => {
                if self.is(&["C15"]) {
                    viol!(self, "stage-export", "stage-err", "stage() failed: {}", e);
                }
                return Ok(());
            }
        };
        let res = {
            let rep = &mut self.replicas[r];
            let m = rep.live.as_mut().unwrap();
            guard(|| m.unstage())
        };
        let _ = res.map_err(|c| self.crash("unstage", c))?;
        let mid = self.digest_of(r)?;
        let m = self.live(r);
        let rp = self.call("replay_stage", || m.replay_stage(&exp))?;
        self.bump("probe.stage_roundtrip");
        if self.is(&["C15", "C19", "C06"]) {
            if let Some(s0) = &self.replicas[r].clean_digest {
                if s0 != &mid {
                    viol!(self, "unstage-restores", "unstage-differs", "unstage (inside export/replay) did not restore the clean state: {}", diff_digest(s0, &mid));
                }
            }
            if let Err(e) = rp {
                viol!(self, "stage-replay", "replay-err", "replay_stage failed: {}", e);
            }
            let s2 = self.digest_of(r)?;
            if s1 != s2 {
                viol!(self, "stage-replay-restores", "replay-differs", "export, discard and replay did not restore the staged state: {}\n before={}\n after={}", diff_digest(&s1, &s2), trunc(&s1), trunc(&s2));
            }
            let exp2 = self.call("stage", || self.live(r).stage())?;
            let (mut c1, c2) = (canon_stage(&exp), exp2.map(|e| canon_stage(&e)).unwrap_or(Value::Null));
            if c1 != c2 {
                // an object that a pack in storage already holds (the pack an interrupted commit left
                // behind) need not be staged again: the export may lack exactly such objects
                let durable = RefState::from_items(&self.replicas[r].disk.items()).objects;
                let o2 = c2.get("o").and_then(|o| o.as_object()).cloned().unwrap_or_default();
                if let Some(o1) = c1.get_mut("o").and_then(|o| o.as_object_mut()) {
                    o1.retain(|k, _| o2.contains_key(k) || !durable.contains_key(k));
                    if o1.is_empty() && c2.get("o").is_none() {
                        c1.as_object_mut().unwrap().remove("o");
                        self.bump("probe.replayed_stage_objects_already_durable");
                    }
                }
            }
            if c1 != c2 {
                viol!(self, "stage-replay-restores", "replay-export-differs", "the staged export after replay differs: {} vs {}", trunc(&c1), trunc(&c2));
            }
        }
        Ok(())
    }

    /// Export the staged changes, keep the export, discard the stage.
    fn op_stage_save(&mut self, r: usize, keep: bool) -> Res {
        let exp = { let m = self.live(r); self.call("stage", || m.stage())? };
        let exp = match exp {
            Ok(e) => e,
            Err(_) => return Ok(()),
        };
        self.replicas[r].older_stage = self.replicas[r].saved_stage.take();
        self.replicas[r].saved_stage = Some(exp);
        self.bump("probe.stage_saved");
        if keep {
            return Ok(());
        }
        self.op_unstage(r)
    }

    /// Replay the export kept aside, possibly onto a state that has moved on since (refresh, other
    /// edits). No claim is made about the resulting state; what is staged can again be discarded
    /// (the next Unstage must restore the clean state) or committed.
    fn op_stage_restore(&mut self, r: usize, older: bool) -> Res {
        if self.replicas[r].time_travel && !self.past_edits() {
            return Ok(());
        }
        let exp = match if older { self.replicas[r].older_stage.clone() } else { self.replicas[r].saved_stage.clone() } {
            Some(e) => e,
            None => return Ok(()),
        };
        let m = self.live(r);
        let was_staging = self.call("has_staging", || m.has_staging())?;
        let before = if was_staging { None } else { Some(self.digest_of(r)?) };
        let _ = self.call("replay_stage", || m.replay_stage(&exp).map_err(|e| e.to_string()))?;
        self.replicas[r].model_doc = None;
        self.bump("probe.stage_restored");
        if self.is(&["C04", "C15"]) {
            // a replay that adds no change record (everything in the export is recorded already, e.g. it
            // was committed in the meantime) changes nothing: nothing is staged, a commit reports nothing
            let m = self.live(r);
            let (flag, exp2) = self.call("stage", || (m.has_staging(), m.stage().ok().flatten()))?;
            let records = exp2.as_ref().and_then(|e| e.get("c")).and_then(|c| c.as_array()).map_or(0, |a| a.len());
            if flag && records == 0 {
                viol!(self, "staged-flag-consistent", "staged-flag-without-changes", "after replay_stage the replica reports staged changes but stage() lists no change record: {}", trunc(&json!(exp2)));
            }
            if let (false, Some(b)) = (flag, &before) {
                let after = self.digest_of(r)?;
                if &after != b {
                    viol!(self, "staged-flag-consistent", "replay-without-records-changed-state", "replay_stage added no change record but changed the state: {}", diff_digest(b, &after));
                }
                self.bump("probe.stage_restored_noop");
            }
        }
        Ok(())
    }

    /// Staged work of `from` replayed on `r` (no commit, no storage involved).
    fn op_stage_foreign(&mut self, r: usize, from: usize) -> Res {
        if r == from || from >= self.replicas.len() || self.partitioned(r, from) || self.replicas[r].time_travel || self.replicas[from].time_travel {
            return Ok(());
        }
        // a stage builds on its author's committed history: it is only well-formed input for a replica that has
        // applied all of that history
        let heads = |d: &Value| -> BTreeSet<String> { d["heads"].as_array().map(|h| h.iter().filter_map(|x| x.as_str().map(|s| s.to_string())).collect()).unwrap_or_default() };
        let (hf, hr) = (heads(&self.digest_of(from)?), heads(&self.digest_of(r)?));
        let upto = RefState::from_items_until(&self.replicas[r].disk.items(), Some(&hr));
        if !hf.iter().all(|h| upto.complete.contains(h)) {
            return Ok(());
        }
        let mf = self.live(from);
        let live_exp: Option<Value> = self.call("stage", || mf.stage().ok().flatten())?;
        let exp: Option<Value> = match live_exp {
            Some(e) => Some(e),
            None => match self.replicas[from].saved_stage.clone() {
                Some(e) => e,
                None => return Ok(()),
            },
        };
        let m = self.live(r);
        let _ = self.call("replay_stage", || m.replay_stage(&exp).map_err(|e| e.to_string()))?;
        self.replicas[r].model_doc = None;
        self.bump("probe.stage_foreign");
        if self.is(&["C06"]) {
            // metamorphic check of the merged read: the same staged state rebuilt from its own export (discard,
            // replay) must read the same — a concurrent array version that arrived by replay is merged like any other
            self.op_stage_roundtrip(r)?;
        }
        Ok(())
    }

    fn op_snapshot(&mut self, r: usize) -> Res {
        if self.replicas[r].time_travel {
            return Ok(());
        }
        let before = self.digest_of(r)?;
        let m = self.live(r);
        let res = self.call("stage_full_snapshot", || m.stage_full_snapshot())?;
        self.bump("probe.snapshot");
        let after = self.digest_of(r)?;
        if after["staging"] == json!(true) && before["staging"] == json!(false) {
            self.bump("probe.snapshot_staged_something");
        }
        if self.is(&["C12"]) {
            if let Err(e) = res {
                viol!(self, "snapshot-succeeds", "snapshot-err", "stage_full_snapshot failed: {}", e);
            }
        }
        if self.is(&["C12"]) && before["doc"] != after["doc"] {
            viol!(self, "snapshot-keeps-document", "snapshot-changed-doc", "stage_full_snapshot changed the visible document:\n before={}\n after={}", trunc(&before["doc"]), trunc(&after["doc"]));
        }
        Ok(())
    }

    /// Editing and committing while time-travelled starts a new branch at the travelled heads (legal API
    /// use: undo by branching); the properties about block graphs and time travel cover such histories.
    fn past_edits(&self) -> bool {
        self.is(&["C13", "C08", "C14", "C02", "C05", "C01"])
    }

    fn op_objop(&mut self, r: usize, kind: u8, id_sel: u32, fields: &Value) -> Res {
        if self.replicas[r].time_travel && !self.past_edits() {
            return Ok(());
        }
        let m = self.live(r);
        let objs: Vec<String> = self.call("get_all_objects", || m.get_all_objects().into_iter().filter(|u| !u.starts_with('^') && u != refstore::ROOT).collect())?;
        if objs.is_empty() {
            return Ok(());
        }
        let mut uuid = objs[id_sel as usize % objs.len()].clone();
        let f = fields.as_object().cloned().unwrap_or_default();
        if kind == 3 && id_sel % 3 == 0 {
            // create_object under an identifier the replica does not know yet
            uuid = format!("n{}", id_sel % 7);
        }
        if kind == 4 {
            // two new objects with byte-identical content in the same stage (one stored value serves
            // both), then the first is withdrawn again
            let (ua, ub) = (format!("n{}", id_sel % 7), format!("n{}", (id_sel + 1 + (id_sel / 7) % 5) % 7));
            let (f1, f2) = (f.clone(), f.clone());
            let _ = self.call("objop", || {
                let _ = m.create_object(&ua, f1);
                let _ = m.create_object(&ub, f2);
                m.remove_object(&ua).map(|_| ())
            })?;
            self.replicas[r].model_doc = None;
            self.bump("probe.objop");
            self.bump("probe.objop_twin_content");
            return Ok(());
        }
        let res = self.call("objop", || match kind {
            0 => m.update_object(&uuid, f).map(|_| ()),
            1 => m.delete_object(&uuid).map(|_| ()),
            2 => m.remove_object(&uuid).map(|_| ()),
            // create_object on a new or on an existing identifier (a second creation revision)
            _ => m.create_object(&uuid, f).map(|_| ()),
        })?;
        self.replicas[r].model_doc = None;
        self.bump("probe.objop");
        let _ = res; // an error return is a legitimate outcome (C08 asks for a return, not for success)
        Ok(())
    }

    // ---------------------------------------------------------------- storage monitors (C11)

    fn note_item(&mut self, key: &str, bytes: &[u8]) -> Res {
        let h = sha_hex(bytes);
        match self.all_items.get(key) {
            Some(old) if *old != h => {
                if self.is(&["C11"]) {
                    viol!(self, "items-identical-everywhere", "item-bytes-differ", "item {} exists with two different contents in the world", key);
                }
            }
            Some(_) => {}
            None => {
                self.all_items.insert(key.to_string(), h);
            }
        }
        Ok(())
    }

    /// Checks every write a replica made (C11) and feeds the world-wide item table.
    fn scan_writes(&mut self, r: usize, log: &[Call]) -> Res {
        for c in log {
            if let Call::Write { key, data, outcome } = c {
                if *outcome == WriteOutcome::Failed {
                    continue;
                }
                self.bump("probe.write_checked");
                if self.is(&["C11"]) {
                    if *outcome == WriteOutcome::ExistingDiffers {
                        viol!(self, "write-once", "overwrite-attempt", "replica {} wrote {} with bytes that differ from the stored item", r, key);
                    }
                    let h = sha_hex(data);
                    if let Some(name) = key.strip_suffix(".pack") {
                        if name != h {
                            viol!(self, "content-addressed", "pack-name", "pack {} is not named by the SHA-256 of its bytes ({})", key, h);
                        }
                    } else if let Some(name) = key.strip_suffix(".delta") {
                        let (idx, dg) = name.split_once('-').unwrap_or(("", name));
                        if dg != h {
                            viol!(self, "content-addressed", "block-name", "block {} is not named by the SHA-256 of its bytes ({})", key, h);
                        }
                        let v: Value = serde_json::from_slice(data).unwrap_or(Value::Null);
                        let maxp = v.get("p").and_then(|p| p.as_array()).map(|a| a.iter().filter_map(|x| x.as_str()).filter_map(|s| s.split('-').next().and_then(|i| i.parse::<u64>().ok())).max().unwrap_or(0)).unwrap_or(0);
                        if idx.parse::<u64>().ok() != Some(maxp + 1) {
                            viol!(self, "content-addressed", "block-index", "block {} has index {} but its highest parent index is {}", key, idx, maxp);
                        }
                    } else {
                        viol!(self, "content-addressed", "foreign-item", "replica {} wrote an item that is neither block nor pack: {}", r, key);
                    }
                }
                self.note_item(key, data)?;
            }
        }
        Ok(())
    }

    // ---------------------------------------------------------------- sync point

    /// Called when a replica has just synchronised with its storage (open, refresh, reload) or
    /// committed: live state vs reference interpretation vs a fresh open; checkpoints.
    pub fn sync_point(&mut self, r: usize, when: &str, d: Option<&Value>) -> Res {
        let d = match d {
            Some(d) => d.clone(),
            None => self.digest_of(r)?,
        };
        self.states.insert(crate::rng::fnv64(semantic(&d).to_string().as_bytes()));
        let fully_seen = self.replicas[r].seen == self.replicas[r].disk.keys();
        let staging = d["staging"] == json!(true);
        if !staging {
            self.replicas[r].clean_digest = Some(d.clone());
        }
        if d["in_conflict"].as_array().map_or(false, |a| a.iter().any(|u| u.as_str().map_or(false, |s| s.starts_with('^')))) {
            self.bump("probe.array_in_conflict_at_sync");
        }
        if d["in_conflict"].as_array().map_or(false, |a| !a.is_empty()) {
            self.bump("probe.conflict_at_sync");
        }
        if d["conflicts"].as_object().map_or(false, |c| c.values().any(|v| v.as_array().map_or(false, |a| a.len() >= 2))) {
            self.bump("probe.three_live_leaves");
        }
        if d["heads"].as_array().map_or(false, |h| h.iter().any(|x| x.as_str().and_then(|s| s.split('-').next()).and_then(|i| i.parse::<u64>().ok()).map_or(false, |i| i >= 10))) {
            self.bump("probe.block_index_ge_10");
        }
        if self.replicas[r].time_travel || staging {
            return Ok(());
        }
        let items: Items = {
            let seen = &self.replicas[r].seen;
            self.replicas[r].disk.items().into_iter().filter(|(k, _)| seen.contains(k)).collect()
        };
        if self.is(&["C01", "C02", "C05", "C13", "C14", "C16", "C03", "C06", "C07", "C09"]) {
            let st = RefState::from_items(&items);
            self.compare_with_ref(r, &d, &st, when)?;
            if self.is(&["C02", "C13", "C09"]) {
                self.check_block_status(r, &st, when)?;
            }
            if self.is(&["C13"]) {
                self.check_graph(r, &st, when)?;
            }
            if self.is(&["C16"]) {
                self.check_array_orders(r, &st, when)?;
            }
            if self.is(&["C06", "C07"]) {
                self.check_array_merge(r, &d, &st, when)?;
            }
        }
        if self.is(&["C01", "C02"]) && when != "commit" {
            self.check_reopen_equals_live(r, &d, when)?;
        }
        if self.is(&["C01"]) && fully_seen && self.replicas[r].fresh {
            self.check_pairwise_convergence(r, &d)?;
        }
        if self.is(&["C05", "C19"]) {
            self.check_trees(r)?;
        }
        // checkpoint for time travel / unstage
        let heads: BTreeSet<String> = d["heads"].as_array().unwrap().iter().map(|x| x.as_str().unwrap().to_string()).collect();
        if !heads.is_empty() && !self.replicas[r].checkpoints.iter().any(|c| c.heads == heads) {
            let mut revs = BTreeMap::new();
            if self.is(&["C14"]) {
                let m = self.live(r);
                revs = self.call("dump", || {
                    let mut out: BTreeMap<String, BTreeMap<String, (Value, Option<String>)>> = BTreeMap::new();
                    for u in m.get_all_objects() {
                        if let Some(t) = api::dump_tree(m, &u) {
                            for (rev, parent, _) in t {
                                if let Ok(v) = m.get_value(&u, Some(&rev)) {
                                    out.entry(u.clone()).or_default().insert(rev, (Value::Object(v), parent));
                                }
                            }
                        }
                    }
                    out
                })?;
                // every earlier checkpoint in this history is still retrievable, unchanged
                let cps: Vec<Checkpoint> = self.replicas[r].checkpoints.clone();
                let st = RefState::from_items(&items);
                for cp in cps {
                    // only checkpoints whose heads are ancestors of the current state
                    if cp.heads.iter().all(|h| st.complete.contains(h)) {
                        self.check_revs_retrievable(r, &cp)?;
                    }
                }
            }
            if heads.len() > 1 {
                self.bump("probe.checkpoint_multihead");
            }
            self.replicas[r].checkpoints.push(Checkpoint { heads, digest: d.clone(), revs });
        }
        Ok(())
    }

    /// live digest vs the reference interpretation of the same items.
    pub fn compare_with_ref(&mut self, r: usize, d: &Value, st: &RefState, when: &str) -> Res {
        let objects: BTreeSet<String> = d["objects"].as_array().unwrap().iter().map(|x| x.as_str().unwrap().to_string()).collect();
        let ref_objects: BTreeSet<String> = st.trees.keys().cloned().collect();
        if objects != ref_objects {
            viol!(self, "state-equals-reference", "ref-objects", "{}: replica {} knows objects {:?} but the stored blocks determine {:?}", when, r, objects.symmetric_difference(&ref_objects).collect::<Vec<_>>(), ref_objects.len());
        }
        for u in &objects {
            let (leaves, w) = refstore::tree_rule(&st.trees[u]);
            let lw = d["winners"][u].as_str().map(|s| s.to_string());
            if self.is(&["C07"]) && lw.is_none() {
                // resolutions seal losers only: whatever was resolved, one live leaf carries the resolved
                // state (independent resolutions included); an object left without any cannot be read,
                // updated or resolved any more
                viol!(self, "resolved-state-exists", "object-without-winner", "{}: object {} of replica {} has no winning revision: every leaf is sealed or dangling; revisions {:?}", when, u, r, st.trees[u]);
            }
            if lw != w {
                if std::env::var("VERIF_DEBUG").is_ok() {
                    if let Some(m) = self.replicas.get(r).and_then(|x| x.live.as_ref()) {
                        eprintln!("DEBUG status {:?}\n complete {:?}\n blocks {:?}\n dump {:?}\n items {:?}", api::block_status(m), st.complete, st.blocks.values().map(|b| (b.id.clone(), b.parents.clone(), b.packs.clone(), b.changes.clone())).collect::<Vec<_>>(), api::dump_tree(m, u), self.replicas[r].disk.keys());
                    }
                }
                viol!(self, "winner-rule", "ref-winner", "{}: replica {} reports winner {:?} for {} but the rule gives {:?} (leaves {:?})", when, r, lw, u, w, leaves);
            }
            let mut conf: Vec<String> = leaves.iter().filter(|l| Some(*l) != w.as_ref()).cloned().collect();
            conf.sort();
            let mut lc: Vec<String> = d["conflicts"].get(u).and_then(|c| c.as_array()).map(|a| a.iter().map(|x| x.as_str().unwrap_or("").to_string()).collect()).unwrap_or_default();
            lc.sort();
            if lc != conf {
                viol!(self, "winner-rule", "ref-conflicts", "{}: replica {} reports conflicting revisions {:?} for {} but the rule gives {:?}", when, r, lc, u, conf);
            }
        }
        let ic: BTreeSet<String> = d["in_conflict"].as_array().unwrap().iter().map(|x| x.as_str().unwrap().to_string()).collect();
        if ic != st.in_conflict() {
            viol!(self, "winner-rule", "ref-in-conflict", "{}: replica {} reports in_conflict {:?} but the rule gives {:?}", when, r, ic, st.in_conflict());
        }
        let heads: BTreeSet<String> = d["heads"].as_array().unwrap().iter().map(|x| x.as_str().unwrap().to_string()).collect();
        if heads != st.heads {
            viol!(self, "state-equals-reference", "ref-heads", "{}: replica {} has heads {:?} but the causally complete blocks give {:?}", when, r, heads, st.heads);
        }
        self.bump("probe.ref_compared");
        match st.document() {
            RefDoc::Doc(doc) => {
                self.bump("probe.ref_doc_compared");
                if d["doc"].get("ok") != Some(&doc) {
                    viol!(self, "state-equals-reference", "ref-doc", "{}: replica {} reads a document that differs from the reference reconstruction:\n read={}\n ref ={}", when, r, trunc(&d["doc"]), trunc(&doc));
                }
            }
            RefDoc::NoRoot => {
                if d["doc"].get("err").is_none() {
                    viol!(self, "state-equals-reference", "ref-doc-noroot", "{}: replica {} reads a document although no root object is stored", when, r);
                }
            }
            RefDoc::ArrayConflict => self.bump("probe.ref_doc_array_conflict"),
            RefDoc::RootDeleted => self.bump("probe.ref_doc_root_deleted"),
            RefDoc::Unknown(e) => {
                self.bump("probe.ref_doc_unknown");
                if self.is(&["C01", "C03"]) {
                    viol!(self, "state-equals-reference", "ref-doc-unknown", "{}: the reference cannot reconstruct the document of replica {} from causally complete blocks: {}", when, r, e);
                }
            }
        }
        Ok(())
    }

    /// C02: applied blocks == causally complete blocks; everything else is held back.
    fn check_block_status(&mut self, r: usize, st: &RefState, when: &str) -> Res {
        let status = api::block_status(self.live(r));
        if cfg!(feature = "real") {
            return Ok(());
        }
        let applied: BTreeSet<String> = status.iter().filter(|(_, s)| *s == "applied").map(|(k, _)| k.clone()).collect();
        if applied != st.complete {
            let extra: Vec<&String> = applied.difference(&st.complete).collect();
            let missing: Vec<&String> = st.complete.difference(&applied).collect();
            viol!(self, "applied-equals-complete", if !extra.is_empty() { "applied-incomplete-block" } else { "complete-block-held-back" },
                "{}: replica {} applied blocks that are not causally complete {:?} / holds back complete blocks {:?}", when, r, extra, missing);
        }
        let held = status.len() - applied.len();
        if held > 0 {
            self.bump("probe.block_held_back");
            self.nontrivial = true;
        }
        if status.iter().any(|(k, s)| s != "applied" && st.blocks.get(k).map_or(false, |b| b.parents.iter().any(|p| status.get(p).map_or(false, |ps| ps != "applied")))) {
            self.bump("probe.held_back_depth_ge_2");
        }
        Ok(())
    }

    /// C13: the applied blocks form an ancestor-closed graph; heads; blocks read back unchanged.
    fn check_graph(&mut self, r: usize, st: &RefState, when: &str) -> Res {
        let m = self.live(r);
        let status = api::block_status(m);
        let applied: BTreeSet<String> = status.iter().filter(|(_, s)| *s == "applied").map(|(k, _)| k.clone()).collect();
        let mut named = BTreeSet::new();
        for b in &applied {
            let did = match melda::melda::DeltaId::from(b) {
                Ok(d) => d,
                Err(_) => continue,
            };
            let d = self.call("get_delta", || m.get_delta(&did))?;
            let d = match d {
                Ok(Some(d)) => d,
                _ => viol!(self, "block-readable", "get-delta-missing", "{}: get_delta({}) returned nothing for an applied block", when, b),
            };
            let parents: BTreeSet<String> = d.parents.clone().unwrap_or_default().iter().map(|p| p.to_string()).collect();
            for p in &parents {
                if !applied.contains(p) {
                    viol!(self, "ancestor-closed", "graph-not-closed", "{}: applied block {} names parent {} which is not applied", when, b, p);
                }
                let (bi, pi): (u64, u64) = (b.split('-').next().unwrap().parse().unwrap_or(0), p.split('-').next().unwrap().parse().unwrap_or(0));
                if pi >= bi {
                    viol!(self, "ancestor-closed", "graph-index", "{}: block {} does not exceed its parent {}", when, b, p);
                }
                named.insert(p.clone());
            }
            if let Some(rb) = st.blocks.get(b) {
                let rp: BTreeSet<String> = rb.parents.iter().cloned().collect();
                let packs: BTreeSet<String> = d.packs.clone().unwrap_or_default();
                let rpacks: BTreeSet<String> = rb.packs.iter().cloned().collect();
                let info = d.info.clone().map(Value::Object);
                if parents != rp || packs != rpacks || info != rb.info {
                    viol!(self, "block-reads-back", "block-differs-from-file", "{}: get_delta({}) differs from the stored file: parents {:?}/{:?} packs {:?}/{:?} info {:?}/{:?}", when, b, parents, rp, packs, rpacks, info, rb.info);
                }
            } else {
                viol!(self, "block-reads-back", "applied-unknown-block", "{}: applied block {} has no valid file in storage", when, b);
            }
            self.bump("probe.block_read_back");
        }
        // blocks the replica holds but has not applied read back unchanged as well
        for (b, stt) in status.iter().filter(|(_, s)| *s != "applied") {
            let _ = stt;
            let (did, rb) = match (melda::melda::DeltaId::from(b), st.blocks.get(b)) {
                (Ok(d), Some(rb)) => (d, rb),
                _ => continue,
            };
            if let Ok(Some(d)) = self.call("get_delta", || m.get_delta(&did))? {
                let parents: BTreeSet<String> = d.parents.clone().unwrap_or_default().iter().map(|p| p.to_string()).collect();
                let rp: BTreeSet<String> = rb.parents.iter().cloned().collect();
                let packs: BTreeSet<String> = d.packs.clone().unwrap_or_default();
                let rpacks: BTreeSet<String> = rb.packs.iter().cloned().collect();
                let info = d.info.clone().map(Value::Object);
                if parents != rp || packs != rpacks || info != rb.info {
                    viol!(self, "block-reads-back", "held-back-block-differs-from-file", "{}: get_delta({}) (held back) differs from the stored file: parents {:?}/{:?} packs {:?}/{:?} info {:?}/{:?}", when, b, parents, rp, packs, rpacks, info, rb.info);
                }
                self.bump("probe.held_back_block_read_back");
            }
        }
        let heads: BTreeSet<String> = applied.difference(&named).cloned().collect();
        let got = self.call("get_anchors", || heads_of(m))?;
        if got != heads {
            viol!(self, "heads", "heads-differ", "{}: get_anchors() = {:?} but the applied blocks not named as parent are {:?}", when, got, heads);
        }
        Ok(())
    }

    /// C16: every stored array revision reconstructs to the order that was submitted.
    fn check_array_orders(&mut self, r: usize, st: &RefState, when: &str) -> Res {
        let recs: Vec<((String, String), Vec<String>)> = self.replicas[r].array_orders.iter().map(|(k, v)| (k.clone(), v.clone())).collect();
        for ((uuid, rev), ids) in recs {
            if !st.trees.get(&uuid).map_or(false, |t| t.contains_key(&rev)) {
                continue;
            }
            match st.array_order(&uuid, &rev) {
                Ok(order) => {
                    let got: Vec<String> = order.iter().map(|x| x.as_str().unwrap_or("?").to_string()).collect();
                    self.bump("probe.array_revision_reconstructed");
                    if got != ids {
                        viol!(self, "array-reconstructs", "array-order-differs", "{}: stored revision {} of {} reconstructs to {:?} but {:?} was submitted", when, rev, uuid, got, ids);
                    }
                }
                Err(e) => viol!(self, "array-reconstructs", "array-order-unreadable", "{}: stored revision {} of {} cannot be reconstructed: {}", when, rev, uuid, e),
            }
        }
        Ok(())
    }

    /// C06: a flattened array with several live leaves reads as a merge without loss or
    /// duplication (constraints (1)-(5) of DESIGN §5.6).
    fn check_array_merge(&mut self, r: usize, d: &Value, st: &RefState, when: &str) -> Res {
        let doc = match d["doc"].get("ok") {
            Some(x) => x.clone(),
            None => return Ok(()),
        };
        // (1) every identifier occurs at most once in the whole document
        let all = match docgen::tracked_objects(&doc) {
            Ok(a) => a,
            Err(e) => viol!(self, "no-duplication", "merge-duplicate", "{}: replica {}: {}\n read={}", when, r, e, trunc(&doc)),
        };
        let arrays: Vec<String> = st.trees.keys().filter(|u| u.starts_with('^')).cloned().collect();
        for uuid in arrays {
            let (leaves, w) = refstore::tree_rule(&st.trees[&uuid]);
            if leaves.len() < 2 {
                continue;
            }
            let w = w.unwrap();
            if Rev::parse(&w).map_or(false, |x| x.is_deleted()) {
                continue;
            }
            let (owner, key) = match uuid[1..].rsplit_once('@') {
                Some(x) => x,
                None => continue,
            };
            let owner_obj = match find_tracked(&doc, owner) {
                Some(o) => o,
                None => continue,
            };
            let got: Vec<String> = match owner_obj.get(key).and_then(|x| x.as_array()) {
                Some(a) => a.iter().filter_map(|e| e.get("_id").and_then(|x| x.as_str()).map(|s| s.to_string())).collect(),
                None => continue,
            };
            let mut orders: Vec<(String, Vec<String>)> = vec![];
            let mut ok = true;
            for l in &leaves {
                match st.array_order(&uuid, l) {
                    Ok(o) => orders.push((l.clone(), o.iter().filter_map(|x| x.as_str().map(|s| s.to_string())).collect())),
                    Err(_) => ok = false,
                }
            }
            if !ok {
                continue;
            }
            self.bump("probe.array_merge_checked");
            if leaves.len() >= 3 {
                self.bump("probe.array_merge_3plus_leaves");
            }
            let live = |e: &String| st.winner(e).map_or(false, |w| !Rev::parse(&w).map_or(false, |x| x.is_deleted()));
            let union: BTreeSet<String> = orders.iter().flat_map(|(_, o)| o.iter().cloned()).collect();
            // (2) nothing lost: every live element of some concurrent version is in the document
            for e in &union {
                if live(e) {
                    if !all.contains_key(e) {
                        viol!(self, "no-loss", "merge-lost-element", "{}: replica {}: element {} is in a concurrent version of {} and its object is live, but it is nowhere in the document\n versions={:?}\n read array={:?}", when, r, e, uuid, orders, got);
                    }
                } else {
                    self.bump("probe.array_merge_ghost");
                    // (5) deleted elements never reappear
                    if got.contains(e) {
                        viol!(self, "deleted-stay-deleted", "merge-ghost", "{}: replica {}: element {} of {} is deleted but appears in the array {:?}", when, r, e, uuid, got);
                    }
                }
            }
            // (2) nothing invented
            for e in &got {
                if !union.contains(e) {
                    viol!(self, "no-invention", "merge-foreign-element", "{}: replica {}: array {} shows element {} which is in none of its concurrent versions {:?}", when, r, uuid, e, orders);
                }
            }
            let pos = |v: &Vec<String>, e: &String| v.iter().position(|x| x == e);
            let keeps_order = |o: &Vec<String>| -> Option<(String, String)> {
                let present: Vec<&String> = o.iter().filter(|e| got.contains(e)).collect();
                for i in 0..present.len() {
                    for j in i + 1..present.len() {
                        if pos(&got, present[i]) > pos(&got, present[j]) {
                            return Some((present[i].clone(), present[j].clone()));
                        }
                    }
                }
                None
            };
            // (3) the winner's elements keep their relative order
            let wo = &orders.iter().find(|(l, _)| *l == w).unwrap().1;
            if let Some((a, b)) = keeps_order(wo) {
                viol!(self, "winner-order", "merge-winner-order", "{}: replica {}: array {} reads {:?}; the winning version {:?} has {} before {}", when, r, uuid, got, wo, a, b);
            }
            if orders.len() == 2 {
                crate::treecheck::merge_pair_contract(self, &uuid, &orders[0].1, &orders[1].1)?;
            }
            // (4) two versions that agree on their common elements are both preserved
            if orders.len() == 2 {
                let (a, b) = (&orders[0].1, &orders[1].1);
                let common_a: Vec<&String> = a.iter().filter(|e| b.contains(e)).collect();
                let common_b: Vec<&String> = b.iter().filter(|e| a.contains(e)).collect();
                if common_a == common_b {
                    self.bump("probe.array_merge_two_compatible");
                    for o in [a, b] {
                        if let Some((x, y)) = keeps_order(o) {
                            viol!(self, "both-orders", "merge-order-lost", "{}: replica {}: array {} reads {:?}; the concurrent versions {:?} and {:?} agree on their common elements, yet {} no longer precedes {}", when, r, uuid, got, a, b, x, y);
                        }
                    }
                }
            }
        }
        Ok(())
    }

    /// C01(a): two fresh replicas whose stores hold the same valid items expose the same state.
    fn check_pairwise_convergence(&mut self, r: usize, d: &Value) -> Res {
        let mine = self.replicas[r].disk.items();
        for o in 0..self.replicas.len() {
            if o == r || self.replicas[o].live.is_none() || self.replicas[o].time_travel || !self.replicas[o].fresh {
                continue;
            }
            if self.replicas[o].seen != self.replicas[o].disk.keys() {
                continue;
            }
            let theirs = self.replicas[o].disk.items();
            if mine != theirs {
                continue;
            }
            let od = self.digest_of(o)?;
            if od["staging"] == json!(true) {
                continue;
            }
            self.bump("probe.pair_compared");
            if &od != d {
                viol!(self, "same-items-same-state", "pair-differs", "replicas {} and {} hold the same items but differ: {}", r, o, diff_digest(d, &od));
            }
        }
        Ok(())
    }

    /// C05 / C19 monitors over the revision trees of one replica (including staged revisions).
    pub fn check_trees(&mut self, r: usize) -> Res {
        if cfg!(feature = "real") {
            return Ok(());
        }
        let m = self.live(r);
        let dump: Vec<(String, Vec<(String, Option<String>, bool)>, Result<String, String>, Result<BTreeSet<String>, String>)> = self.call("dump", || {
            m.get_all_objects().into_iter().filter_map(|u| api::dump_tree(m, &u).map(|t| {
                let w = m.get_winner(&u).map_err(|e| e.to_string());
                let c = m.get_conflicting(&u).map_err(|e| e.to_string());
                (u, t, w, c)
            })).collect()
        })?;
        let ic = self.call("in_conflict", || m.in_conflict())?;
        let mut ref_ic = BTreeSet::new();
        for (uuid, t, w, c) in dump {
            let tree: refstore::Tree = t.iter().map(|(r, p, _)| (r.clone(), p.clone())).collect();
            let (leaves, rw) = refstore::tree_rule(&tree);
            if leaves.len() > 1 {
                ref_ic.insert(uuid.clone());
            }
            if self.is(&["C05"]) {
                if w.clone().ok() != rw {
                    viol!(self, "winner-rule", "tree-winner", "object {}: get_winner = {:?} but the rule over its recorded revisions gives {:?}; tree {:?}", uuid, w, rw, tree);
                }
                let conf: BTreeSet<String> = leaves.iter().filter(|l| Some(*l) != rw.as_ref()).cloned().collect();
                if rw.is_some() && c.clone().ok() != Some(conf.clone()) {
                    viol!(self, "winner-rule", "tree-conflicting", "object {}: get_conflicting = {:?} but the rule gives {:?}", uuid, c, conf);
                }
                self.bump("probe.tree_checked");
                if tree.len() >= 10 {
                    self.bump("probe.tree_ge_10_revisions");
                }
                if tree.keys().any(|k| Rev::parse(k).map_or(false, |x| x.idx >= 10)) {
                    self.bump("probe.revision_index_ge_10");
                }
                crate::treecheck::permutation_check(self, &uuid, &t)?;
            }
            if self.is(&["C19"]) {
                crate::treecheck::identifier_checks(self, &uuid, &t)?;
                let m = self.live(r);
                let vals: Vec<(String, Option<String>, Option<Value>)> = self.call("get_value", || t.iter().map(|(rv, p, _)| (rv.clone(), p.clone(), m.get_value(&uuid, Some(rv)).ok().map(Value::Object))).collect())?;
                for (rv, p, v) in vals {
                    if let Some(v) = v {
                        crate::treecheck::note_revision_content(self, &uuid, &rv, &p, &v)?;
                    }
                }
            }
        }
        if self.is(&["C05"]) && self.step % 9 == 0 {
            crate::treecheck::synthetic_trees(self)?;
        }
        if self.is(&["C05"]) && ic != ref_ic {
            viol!(self, "winner-rule", "tree-in-conflict", "in_conflict = {:?} but the rule gives {:?}", ic, ref_ic);
        }
        Ok(())
    }

    // ---------------------------------------------------------------- after every op

    fn after_op(&mut self, op: &Op) -> Res {
        if self.cfg.backend != "sim" {
            for i in 0..self.replicas.len() {
                if let Some(m) = self.replicas[i].disk.with(|d| d.backend_mismatch.take()) {
                    let kind = m.split('(').next().unwrap_or("call").to_string();
                    viol!(self, "backend-contract", format!("backend-mismatch:{}:{}", kind, self.cfg.backend), "replica {} after {}: {}", i, op.name(), m);
                }
            }
        }
        // storage only grows, items never change (C11)
        if self.is(&["C11"]) {
            for i in 0..self.replicas.len() {
                let items = self.replicas[i].disk.items();
                for (k, v) in &items {
                    self.note_item(k, v)?;
                }
            }
        }
        if self.is(&["C05", "C19"]) {
            if let Some(r) = op.replica() {
                if matches!(op, Op::Update { .. } | Op::Resolve { .. } | Op::ObjOp { .. } | Op::Snapshot { .. } | Op::StageRoundTrip { .. } | Op::Unstage { .. }) {
                    self.check_trees(r)?;
                }
            }
        }
        Ok(())
    }

    /// Items present in storage at the end (for enumerators).
    pub fn disks(&self) -> Vec<Items> {
        self.replicas.iter().map(|r| r.disk.items()).collect()
    }
}

/// Finds the tracked object with the given identifier in a read document.
pub fn find_tracked(doc: &Value, id: &str) -> Option<Value> {
    fn walk(v: &Value, id: &str) -> Option<Value> {
        match v {
            Value::Object(o) => {
                if o.get("_id").and_then(|x| x.as_str()) == Some(id) {
                    return Some(v.clone());
                }
                for (k, x) in o {
                    if k.ends_with(refstore::FLAT) {
                        if let Some(f) = walk(x, id) {
                            return Some(f);
                        }
                    }
                }
                None
            }
            Value::Array(a) => a.iter().find_map(|x| walk(x, id)),
            _ => None,
        }
    }
    walk(doc, id)
}
