//! One integer decides everything: a SplitMix64-seeded xoshiro256** stream.
#[derive(Clone, Debug)]
pub struct Rng {
    s: [u64; 4],
}

pub fn splitmix(x: &mut u64) -> u64 {
    *x = x.wrapping_add(0x9E37_79B9_7F4A_7C15);
    let mut z = *x;
    z = (z ^ (z >> 30)).wrapping_mul(0xBF58_476D_1CE4_E5B9);
    z = (z ^ (z >> 27)).wrapping_mul(0x94D0_49BB_1331_11EB);
    z ^ (z >> 31)
}

impl Rng {
    pub fn new(seed: u64) -> Rng {
        let mut x = seed;
        let s = [splitmix(&mut x), splitmix(&mut x), splitmix(&mut x), splitmix(&mut x)];
        Rng { s }
    }
    /// Independent stream derived from this seed and a label.
    pub fn derive(seed: u64, label: u64) -> Rng {
        let mut x = seed ^ label.wrapping_mul(0xD6E8_FEB8_6659_FD93);
        let a = splitmix(&mut x);
        Rng::new(a ^ label)
    }
    pub fn next(&mut self) -> u64 {
        let r = self.s[1].wrapping_mul(5).rotate_left(7).wrapping_mul(9);
        let t = self.s[1] << 17;
        self.s[2] ^= self.s[0];
        self.s[3] ^= self.s[1];
        self.s[1] ^= self.s[2];
        self.s[0] ^= self.s[3];
        self.s[2] ^= t;
        self.s[3] = self.s[3].rotate_left(45);
        r
    }
    /// Uniform in 0..n (n > 0)
    pub fn below(&mut self, n: usize) -> usize {
        if n <= 1 {
            return 0;
        }
        (self.next() % n as u64) as usize
    }
    pub fn range(&mut self, lo: usize, hi_incl: usize) -> usize {
        lo + self.below(hi_incl - lo + 1)
    }
    pub fn chance(&mut self, num: u32, den: u32) -> bool {
        (self.next() % den as u64) < num as u64
    }
    pub fn pick<'a, T>(&mut self, v: &'a [T]) -> &'a T {
        &v[self.below(v.len())]
    }
    pub fn shuffle<T>(&mut self, v: &mut [T]) {
        for i in (1..v.len()).rev() {
            let j = self.below(i + 1);
            v.swap(i, j);
        }
    }
    /// Weighted choice: returns index into weights.
    pub fn weighted(&mut self, w: &[u32]) -> usize {
        let tot: u64 = w.iter().map(|x| *x as u64).sum();
        if tot == 0 {
            return 0;
        }
        let mut x = self.next() % tot;
        for (i, wi) in w.iter().enumerate() {
            if x < *wi as u64 {
                return i;
            }
            x -= *wi as u64;
        }
        w.len() - 1
    }
}

pub fn fnv64(data: &[u8]) -> u64 {
    let mut h: u64 = 0xcbf29ce484222325;
    for b in data {
        h ^= *b as u64;
        h = h.wrapping_mul(0x100000001b3);
    }
    h
}
