//! `RefStore`: reference interpretation of a storage snapshot (`name -> bytes`), written from
//! the property statements. It shares no code with libmelda: own SHA-256 use (sha2 crate), own
//! string-aware pack splitter, own block parser, own revision parser / order, own winner rule,
//! own edit-script applier, own document reconstruction.
use crate::disk::Items;
use serde_json::{Map, Value};
use sha2::{Digest, Sha256};
use std::collections::{BTreeMap, BTreeSet};

pub const FLAT: &str = "\u{266D}";
pub const ROOT: &str = "\u{221A}";

pub fn sha_hex(b: &[u8]) -> String {
    let mut h = Sha256::new();
    h.update(b);
    hex::encode(h.finalize())
}

// ---------------------------------------------------------------- revisions

#[derive(Clone, Debug, PartialEq, Eq)]
pub struct Rev {
    pub idx: u64,
    pub digest: String,
    pub tail: Option<String>,
}

fn is_word(s: &str) -> bool {
    !s.is_empty() && s.chars().all(|c| c.is_alphanumeric() || c == '_')
}

impl Rev {
    /// Anchored parse of `<idx>-<digest>[_<tail>]`.
    pub fn parse(s: &str) -> Option<Rev> {
        let (i, rest) = s.split_once('-')?;
        if i.is_empty() || !i.chars().all(|c| c.is_ascii_digit()) {
            return None;
        }
        let idx: u64 = i.parse().ok()?;
        match rest.rsplit_once('_') {
            Some((d, t)) if is_word(d) && is_word(t) => Some(Rev { idx, digest: d.to_string(), tail: Some(t.to_string()) }),
            _ if is_word(rest) => Some(Rev { idx, digest: rest.to_string(), tail: None }),
            _ => None,
        }
    }
    pub fn text(&self) -> String {
        if self.idx > 1 {
            format!("{}-{}_{}", self.idx, self.digest, self.tail.clone().unwrap_or_default())
        } else {
            format!("{}-{}", self.idx, self.digest)
        }
    }
    pub fn child(&self, digest: &str) -> Rev {
        Rev { idx: self.idx + 1, digest: digest.to_string(), tail: Some(sha_hex(self.text().as_bytes())[..7].to_string()) }
    }
    pub fn is_resolved(&self) -> bool {
        self.digest == "r"
    }
    pub fn is_deleted(&self) -> bool {
        self.digest == "d"
    }
}

/// The fixed total order of C05: resolution markers lowest; longer history first; ties by
/// byte-wise comparison of the identifier text.
pub fn rev_cmp(a: &str, b: &str) -> std::cmp::Ordering {
    let (ra, rb) = (Rev::parse(a), Rev::parse(b));
    match (ra, rb) {
        (Some(ra), Some(rb)) => {
            match (ra.is_resolved(), rb.is_resolved()) {
                (true, true) => a.as_bytes().cmp(b.as_bytes()),
                (true, false) => std::cmp::Ordering::Less,
                (false, true) => std::cmp::Ordering::Greater,
                _ => ra.idx.cmp(&rb.idx).then_with(|| a.as_bytes().cmp(b.as_bytes())),
            }
        }
        _ => a.as_bytes().cmp(b.as_bytes()),
    }
}

pub fn digest_is_builtin(d: &str) -> bool {
    d == "d" || d == "r" || d == "e" || (d.len() <= 8 && u32::from_str_radix(d, 16).is_ok())
}

/// revision -> parent (None for creation records)
pub type Tree = BTreeMap<String, Option<String>>;

/// Live leaves (ascending in the C05 order) and winner of a revision set.
pub fn tree_rule(tree: &Tree) -> (Vec<String>, Option<String>) {
    let parents: BTreeSet<&String> = tree.values().filter_map(|p| p.as_ref()).collect();
    let mut leaves: Vec<String> = vec![];
    for (r, _) in tree.iter() {
        let rv = match Rev::parse(r) {
            Some(x) => x,
            None => continue,
        };
        if rv.is_resolved() || parents.contains(r) {
            continue;
        }
        // ancestry must reach a creation revision (index 1, no parent)
        let mut cur = r.clone();
        let mut ok = false;
        let mut guard = 0usize;
        loop {
            guard += 1;
            if guard > tree.len() + 2 {
                break;
            }
            match tree.get(&cur) {
                None => break,
                Some(None) => {
                    ok = Rev::parse(&cur).map_or(false, |x| x.idx == 1);
                    break;
                }
                Some(Some(p)) => cur = p.clone(),
            }
        }
        if ok {
            leaves.push(r.clone());
        }
    }
    leaves.sort_by(|a, b| rev_cmp(a, b));
    let winner = leaves.last().cloned();
    (leaves, winner)
}

// ---------------------------------------------------------------- packs

/// Byte spans of the top-level `{...}` values of a pack, string-aware.
pub fn pack_spans(data: &[u8]) -> Vec<(usize, usize)> {
    let mut out = vec![];
    let (mut depth, mut start) = (0i64, 0usize);
    let (mut in_str, mut esc) = (false, false);
    for (i, c) in data.iter().enumerate() {
        if in_str {
            if esc {
                esc = false;
            } else if *c == b'\\' {
                esc = true;
            } else if *c == b'"' {
                in_str = false;
            }
            continue;
        }
        match *c {
            b'"' => in_str = true,
            b'{' => {
                if depth == 0 {
                    start = i;
                }
                depth += 1;
            }
            b'}' => {
                depth -= 1;
                if depth == 0 {
                    out.push((start, i + 1 - start));
                }
                if depth < 0 {
                    depth = 0;
                }
            }
            _ => {}
        }
    }
    out
}

// ---------------------------------------------------------------- blocks

#[derive(Clone, Debug)]
pub struct RefBlock {
    pub id: String,
    pub idx: u64,
    pub parents: Vec<String>,
    pub packs: Vec<String>,
    pub info: Option<Value>,
    pub changes: Vec<(String, String, Option<String>)>, // uuid, revision, parent revision
}

fn parse_block_id(s: &str) -> Option<(u64, String)> {
    let (i, d) = s.split_once('-')?;
    if i.is_empty() || !i.chars().all(|c| c.is_ascii_digit()) || (i.len() > 1 && i.starts_with('0')) {
        return None;
    }
    let idx: u64 = i.parse().ok()?;
    if idx > u32::MAX as u64 || !is_word(d) {
        return None;
    }
    Some((idx, d.to_string()))
}

/// Parses one stored block; `None` when it must not be trusted.
pub fn parse_block(key: &str, bytes: &[u8]) -> Option<RefBlock> {
    let id = key.strip_suffix(".delta")?;
    let (idx, digest) = parse_block_id(id)?;
    if sha_hex(bytes) != digest {
        return None;
    }
    let v: Value = serde_json::from_slice(bytes).ok()?;
    let o = v.as_object()?;
    let info = match o.get("i") {
        None => None,
        Some(i) if i.is_object() => Some(i.clone()),
        Some(_) => return None,
    };
    let mut parents = vec![];
    if let Some(p) = o.get("p") {
        for x in p.as_array()? {
            let s = x.as_str()?;
            parse_block_id(s)?;
            parents.push(s.to_string());
        }
    }
    parents.sort();
    parents.dedup();
    let expect = parents.iter().map(|p| parse_block_id(p).unwrap().0).max().unwrap_or(0) + 1;
    if expect != idx {
        return None;
    }
    let mut packs = vec![];
    if let Some(k) = o.get("k") {
        for x in k.as_array()? {
            packs.push(x.as_str()?.to_string());
        }
    }
    let mut changes = vec![];
    if let Some(Value::Array(c)) = o.get("c") {
        for rec in c {
            let rec = match rec.as_array() {
                Some(r) => r,
                None => continue,
            };
            match rec.len() {
                2 => {
                    let uuid = rec[0].as_str()?;
                    let d = rec[1].as_str()?;
                    changes.push((uuid.to_string(), Rev { idx: 1, digest: d.to_string(), tail: None }.text(), None));
                }
                3 => {
                    let uuid = rec[0].as_str()?;
                    let prev = Rev::parse(rec[1].as_str()?)?;
                    let d = rec[2].as_str()?;
                    changes.push((uuid.to_string(), prev.child(d).text(), Some(prev.text())));
                }
                _ => return None,
            }
        }
    }
    Some(RefBlock { id: id.to_string(), idx, parents, packs, info, changes })
}

// ---------------------------------------------------------------- the store

#[derive(Clone, Debug, Default)]
pub struct RefState {
    pub valid_packs: BTreeSet<String>,
    pub bad_packs: BTreeSet<String>,
    pub objects: BTreeMap<String, Value>,
    pub blocks: BTreeMap<String, RefBlock>,
    pub complete: BTreeSet<String>,
    pub heads: BTreeSet<String>,
    pub trees: BTreeMap<String, Tree>,
}

#[derive(Clone, Debug, PartialEq)]
pub enum RefDoc {
    NoRoot,
    RootDeleted,
    Doc(Value),
    /// some flattened array is in conflict: the document is only constrained (C06)
    ArrayConflict,
    /// the reference could not reconstruct (e.g. missing object value); text says why
    Unknown(String),
}

impl RefState {
    pub fn from_items(items: &Items) -> RefState {
        Self::from_items_until(items, None)
    }

    /// `until`: restrict application to the given blocks and their ancestors (C14).
    pub fn from_items_until(items: &Items, until: Option<&BTreeSet<String>>) -> RefState {
        let mut st = RefState::default();
        for (k, bytes) in items {
            if let Some(name) = k.strip_suffix(".pack") {
                if sha_hex(bytes) == name {
                    st.valid_packs.insert(name.to_string());
                    for (s, l) in pack_spans(bytes) {
                        let span = &bytes[s..s + l];
                        if let Ok(v) = serde_json::from_slice::<Value>(span) {
                            if v.is_object() {
                                st.objects.insert(sha_hex(span), v);
                            }
                        }
                    }
                } else {
                    st.bad_packs.insert(name.to_string());
                }
            }
        }
        for (k, bytes) in items {
            if k.ends_with(".delta") {
                if let Some(b) = parse_block(k, bytes) {
                    st.blocks.insert(b.id.clone(), b);
                }
            }
        }
        // causal completeness, by ascending index (parents have strictly smaller indices)
        let mut order: Vec<&RefBlock> = st.blocks.values().collect();
        order.sort_by_key(|b| b.idx);
        let mut complete = BTreeSet::new();
        for b in order {
            let ok = b.parents.iter().all(|p| complete.contains(p))
                && b.packs.iter().all(|p| st.valid_packs.contains(p))
                && b.changes.iter().all(|(_, r, p)| {
                    st.rev_available(r) && p.as_ref().map_or(true, |p| st.rev_available(p))
                });
            if ok {
                complete.insert(b.id.clone());
            }
        }
        st.complete = complete;
        let applied: BTreeSet<String> = match until {
            None => st.complete.clone(),
            Some(h) => {
                let mut s = BTreeSet::new();
                let mut todo: Vec<String> = h.iter().cloned().collect();
                while let Some(x) = todo.pop() {
                    if !st.complete.contains(&x) || !s.insert(x.clone()) {
                        continue;
                    }
                    todo.extend(st.blocks[&x].parents.iter().cloned());
                }
                s
            }
        };
        let mut heads = applied.clone();
        for b in applied.iter() {
            for p in &st.blocks[b].parents {
                heads.remove(p);
            }
        }
        st.heads = heads;
        for b in applied.iter() {
            for (uuid, r, p) in &st.blocks[b].changes {
                st.trees.entry(uuid.clone()).or_default().entry(r.clone()).or_insert_with(|| p.clone());
            }
        }
        if until.is_some() {
            st.complete = applied;
        }
        st
    }

    fn rev_available(&self, r: &str) -> bool {
        match Rev::parse(r) {
            None => false,
            Some(rv) => digest_is_builtin(&rv.digest) || self.objects.contains_key(&rv.digest),
        }
    }

    pub fn leaves(&self, uuid: &str) -> Vec<String> {
        self.trees.get(uuid).map(|t| tree_rule(t).0).unwrap_or_default()
    }
    pub fn winner(&self, uuid: &str) -> Option<String> {
        self.trees.get(uuid).and_then(|t| tree_rule(t).1)
    }
    pub fn in_conflict(&self) -> BTreeSet<String> {
        self.trees.iter().filter(|(_, t)| tree_rule(t).0.len() > 1).map(|(u, _)| u.clone()).collect()
    }

    /// The JSON object stored for a revision (what `get_value` must return).
    pub fn value(&self, rev: &str) -> Option<Map<String, Value>> {
        let rv = Rev::parse(rev)?;
        match rv.digest.as_str() {
            "e" => Some(Map::new()),
            "d" => Some(serde_json::json!({"_deleted": true}).as_object().unwrap().clone()),
            "r" => Some(serde_json::json!({"_resolved": true}).as_object().unwrap().clone()),
            d if digest_is_builtin(d) => {
                let mut m = Map::new();
                m.insert("#".to_string(), Value::from(d));
                Some(m)
            }
            d => self.objects.get(d).and_then(|v| v.as_object().cloned()),
        }
    }

    /// Order of a flattened array at one revision: walk back to the nearest full descriptor
    /// and apply the edit scripts forward.
    pub fn array_order(&self, uuid: &str, rev: &str) -> Result<Vec<Value>, String> {
        let tree = self.trees.get(uuid).ok_or("no tree")?;
        let mut chain: Vec<Vec<Value>> = vec![];
        let mut cur = rev.to_string();
        let mut base: Vec<Value> = vec![];
        loop {
            let v = self.value(&cur).ok_or_else(|| format!("no value for {}", cur))?;
            if let Some(a) = v.get("A") {
                base = a.as_array().ok_or("A not array")?.clone();
                break;
            } else if let Some(p) = v.get("a") {
                chain.push(p.as_array().ok_or("a not array")?.clone());
            } else if v.contains_key("_deleted") || v.contains_key("_resolved") {
                base = vec![];
                break;
            } else {
                return Err(format!("malformed descriptor at {}", cur));
            }
            match tree.get(&cur) {
                Some(Some(p)) => cur = p.clone(),
                _ => break,
            }
        }
        for patch in chain.iter().rev() {
            apply_patch(&mut base, patch)?;
        }
        Ok(base)
    }

    /// The document a reader must see, when it is fully determined.
    pub fn document(&self) -> RefDoc {
        let mut pool: BTreeMap<String, Map<String, Value>> = BTreeMap::new();
        for (uuid, t) in &self.trees {
            let (leaves, w) = tree_rule(t);
            let w = match w {
                Some(w) => w,
                None => continue,
            };
            if Rev::parse(&w).map_or(false, |r| r.is_deleted()) {
                continue;
            }
            let mut obj = if uuid.starts_with('^') {
                if leaves.len() > 1 {
                    return RefDoc::ArrayConflict;
                }
                match self.array_order(uuid, &w) {
                    Ok(o) => {
                        let mut m = Map::new();
                        m.insert("A".to_string(), Value::Array(o));
                        m
                    }
                    Err(e) => return RefDoc::Unknown(format!("array {}: {}", uuid, e)),
                }
            } else {
                match self.value(&w) {
                    Some(v) => v,
                    None => return RefDoc::Unknown(format!("no value for {} {}", uuid, w)),
                }
            };
            obj.insert("_id".to_string(), Value::from(uuid.clone()));
            pool.insert(uuid.clone(), obj);
        }
        if !self.trees.contains_key(ROOT) {
            return RefDoc::NoRoot;
        }
        let root = match pool.get(ROOT) {
            Some(r) => r.clone(),
            None => return RefDoc::RootDeleted,
        };
        RefDoc::Doc(Value::Object(build_object(&mut pool, &root)))
    }
}

pub fn apply_patch(arr: &mut Vec<Value>, patch: &[Value]) -> Result<(), String> {
    for op in patch {
        let o = op.as_array().ok_or("op not array")?;
        match o.first().and_then(|x| x.as_str()) {
            Some("d") => {
                let n = o.get(1).and_then(|x| x.as_u64()).ok_or("bad d len")? as usize;
                let i = o.get(2).and_then(|x| x.as_u64()).ok_or("bad d idx")? as usize;
                if i + n > arr.len() {
                    return Err(format!("delete out of range: {}+{} > {}", i, n, arr.len()));
                }
                arr.drain(i..i + n);
            }
            Some("i") => {
                let i = o.get(1).and_then(|x| x.as_u64()).ok_or("bad i idx")? as usize;
                let items = o.get(2).and_then(|x| x.as_array()).ok_or("bad i items")?;
                if i > arr.len() {
                    return Err(format!("insert out of range: {} > {}", i, arr.len()));
                }
                for (k, it) in items.iter().enumerate() {
                    arr.insert(i + k, it.clone());
                }
            }
            _ => return Err("unknown op".into()),
        }
    }
    Ok(())
}

fn build_object(pool: &mut BTreeMap<String, Map<String, Value>>, o: &Map<String, Value>) -> Map<String, Value> {
    let mut out = Map::new();
    for (k, v) in o {
        if k.ends_with(FLAT) {
            out.insert(k.clone(), unfl(pool, v));
        } else {
            out.insert(k.clone(), v.clone());
        }
    }
    out
}

fn unfl(pool: &mut BTreeMap<String, Map<String, Value>>, v: &Value) -> Value {
    match v {
        Value::String(s) => {
            if let Some(rest) = s.strip_prefix('!') {
                Value::from(rest)
            } else if s.starts_with('^') {
                match pool.remove(s) {
                    // a reference to an array whose descriptor is deleted or unknown reads as null
                    None => Value::Null,
                    Some(desc) => {
                        let mut arr = vec![];
                        if let Some(Value::Array(order)) = desc.get("A") {
                            for e in order {
                                if let Some(id) = e.as_str() {
                                    if let Some(o) = pool.remove(id) {
                                        arr.push(Value::Object(build_object(pool, &o)));
                                    }
                                }
                            }
                        }
                        Value::Array(arr)
                    }
                }
            } else {
                match pool.remove(s) {
                    Some(o) => Value::Object(build_object(pool, &o)),
                    None => Value::Null,
                }
            }
        }
        Value::Array(a) => Value::Array(a.iter().map(|x| unfl(pool, x)).collect()),
        Value::Object(o) => Value::Object(build_object(pool, o)),
        other => other.clone(),
    }
}
