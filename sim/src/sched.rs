//! sched flavour: a whole run executes inside one shuttle execution. The main task plays the
//! single client thread; every rayon loop inside libmelda spawns simulated pool workers
//! (shuttle threads); shuttle's seeded Random / PCT scheduler decides every switch at the lock
//! shims. A deadlock (all tasks blocked) or a step overrun surfaces as a panic of the runner.
use crate::api::Crash;
use std::sync::atomic::{AtomicUsize, Ordering};

/// Step (op number) the world is currently executing — read when the runner itself fails.
pub static CURRENT_STEP: AtomicUsize = AtomicUsize::new(0);

pub fn note_step(s: usize) {
    CURRENT_STEP.store(s, Ordering::SeqCst);
}

#[cfg(feature = "sched")]
pub fn in_shuttle<T: Send + 'static>(sched_seed: u64, pool: usize, f: impl Fn() -> T + Send + Sync + 'static) -> Result<T, Crash> {
    use shuttle::scheduler::{PctScheduler, RandomScheduler};
    use std::sync::{Arc, Mutex};
    let out: Arc<Mutex<Option<T>>> = Arc::new(Mutex::new(None));
    let out2 = out.clone();
    let mut config = shuttle::Config::new();
    config.stack_size = 2 << 20;
    config.max_steps = shuttle::MaxSteps::FailAfter(20_000_000);
    config.failure_persistence = shuttle::FailurePersistence::None;
    config.silence_warnings = true;
    let body = move || {
        rayon::set_pool_size(pool);
        rayon::set_shuttle_active(true);
        let r = f();
        rayon::set_shuttle_active(false);
        *out2.lock().unwrap() = Some(r);
    };
    let pct = sched_seed % 3 == 0;
    let res = std::panic::catch_unwind(std::panic::AssertUnwindSafe(move || {
        if pct {
            shuttle::Runner::new(PctScheduler::new_from_seed(sched_seed, 3, 1), config).run(body);
        } else {
            shuttle::Runner::new(RandomScheduler::new_from_seed(sched_seed, 1), config).run(body);
        }
    }));
    rayon::set_shuttle_active(false);
    match res {
        Ok(()) => match out.lock().unwrap().take() {
            Some(r) => Ok(r),
            None => Err(Crash::Hang("the simulated execution ended without a result".to_string())),
        },
        Err(_) => {
            let m = crate::api::last_panic();
            if m.to_lowercase().contains("deadlock") {
                Err(Crash::Hang(format!("deadlock: all simulated threads blocked ({})", m.chars().take(300).collect::<String>())))
            } else if m.contains("exceeded max_steps") || m.contains("max_steps") {
                Err(Crash::Hang(format!("no progress within the step bound ({})", m.chars().take(200).collect::<String>())))
            } else {
                Err(Crash::Abort(m))
            }
        }
    }
}

#[cfg(not(feature = "sched"))]
pub fn in_shuttle<T: Send + 'static>(_sched_seed: u64, _pool: usize, f: impl Fn() -> T + Send + Sync + 'static) -> Result<T, Crash> {
    Ok(f())
}

pub fn loops_on_workers() -> u64 {
    #[cfg(feature = "sched")]
    {
        rayon::loops_on_workers()
    }
    #[cfg(not(feature = "sched"))]
    {
        0
    }
}
