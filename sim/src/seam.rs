//! The lock / hash / pool seams as seen from the simulator, per build flavour.
#[cfg(feature = "real")]
pub use std::sync::{Arc, RwLock};
#[cfg(not(feature = "real"))]
pub use melda_verif_shim::sync::{Arc, RwLock};

use melda::adapter::Adapter;
pub type Store = Arc<RwLock<Box<dyn Adapter>>>;

pub const FLAVOUR: &str = if cfg!(feature = "real") {
    "real"
} else if cfg!(feature = "sched") {
    "sched"
} else {
    "seq"
};

/// Installs the per-run nondeterminism inputs that live outside the world object.
pub fn install(hash_seed: u64, order_seed: u64, cache_ad: u32, cache_data: u32) {
    #[cfg(not(feature = "real"))]
    {
        melda_verif_shim::collections::set_hash_seed(hash_seed);
        rayon::set_order_seed(order_seed);
    }
    #[cfg(feature = "real")]
    {
        let _ = (hash_seed, order_seed);
    }
    // One world per OS process at a time: the process environment is the knob libmelda reads.
    std::env::set_var("MELDA_ARRAYDESCRIPTORS_CACHE_CAP", cache_ad.to_string());
    std::env::set_var("MELDA_DATA_CACHE_CAP", cache_data.to_string());
}

pub fn loops_permuted() -> u64 {
    #[cfg(not(feature = "real"))]
    {
        rayon::loops_permuted()
    }
    #[cfg(feature = "real")]
    {
        0
    }
}
