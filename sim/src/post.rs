//! Checks over the recorded history after a run (enumerators, forks, configuration matrices).
use crate::ops::Op;
use crate::world::{Res, World};

pub fn after_run(_w: &mut World, _ops: &[Op]) -> Res {
    Ok(())
}
