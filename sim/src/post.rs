//! Checks over the recorded history after a run: crash-point / write-failure enumeration (C09),
//! damage enumeration (C10), configuration matrix (C18). "Fork" = re-executing the recorded op
//! prefix in a second world and continuing differently — exact, because replay is.
use crate::api::{self, diff_digest, digest, guard, semantic, trunc, Crash};
use crate::disk::{Call, DiskRef, Items, WriteOutcome};
use crate::ops::Op;
use crate::refstore::{self, sha_hex, RefState};
use crate::rng::Rng;
use crate::world::{Res, RunCfg, Stop, Violation, World};
use melda::melda::Melda;
use serde_json::{json, Value};
use std::collections::{BTreeMap, BTreeSet};

macro_rules! viol {
    ($w:expr, $check:expr, $class:expr, $($arg:tt)*) => {
        return Err(Stop::Violation(Violation { prop: $w.prop.clone(), check: $check.to_string(), class: $class.to_string(), step: $w.step, detail: format!($($arg)*) }))
    };
}

pub fn after_run(w: &mut World, ops: &[Op]) -> Res {
    match w.prop.as_str() {
        "C09" => c09(w, ops),
        "C10" => c10(w, ops),
        "C18" => c18(w, ops),
        "C17" => c17(w),
        "C07" => c07(w, ops),
        "C14" => c14(w, ops),
        "C02" => c02(w, ops),
        "C11" => c11(w),
        _ => Ok(()),
    }
}

/// A world that has executed `ops` with all oracles silent.
fn fork(cfg: &RunCfg, ops: &[Op]) -> Option<World> {
    let mut c = cfg.clone();
    c.prop = "-".to_string();
    let mut w = World::new(c).ok()?;
    for op in ops {
        if w.exec(op).is_err() {
            return None;
        }
    }
    Some(w)
}

fn open_on(items: &Items, seed: u64) -> Result<Result<Melda, String>, Crash> {
    let d = DiskRef::from_items(items.clone(), seed);
    let store = d.store();
    guard(|| Melda::new(store).map_err(|e| e.to_string()))
}

// ------------------------------------------------------------------------------------ C09

fn is_target(op: &Op) -> bool {
    matches!(op, Op::Commit { .. } | Op::Meld { .. })
}

fn c09(w: &mut World, ops: &[Op]) -> Res {
    let cfg = w.cfg.clone();
    let targets: Vec<usize> = ops.iter().enumerate().filter(|(_, o)| is_target(o)).map(|(i, _)| i).collect();
    // bound the work per history; prefer later targets (richer states) but keep the first
    let mut chosen: Vec<usize> = targets.iter().rev().take(5).cloned().collect();
    if let Some(f) = targets.first() {
        if !chosen.contains(f) {
            chosen.push(*f);
        }
    }
    chosen.sort();
    for i in chosen {
        c09_target(w, &cfg, ops, i)?;
    }
    Ok(())
}

fn c09_target(w: &mut World, cfg: &RunCfg, ops: &[Op], i: usize) -> Res {
    let op = &ops[i];
    let r = op.replica().unwrap();
    let is_commit = matches!(op, Op::Commit { .. });
    // dry run: count the writes, take a snapshot at every write boundary
    let mut w0 = match fork(cfg, &ops[..i]) {
        Some(x) => x,
        None => return Ok(()),
    };
    if r >= w0.replicas.len() {
        return Ok(());
    }
    // armed faults of the history itself would blur the enumeration: clear them in every fork
    let clear = |wx: &mut World| {
        for rep in &wx.replicas {
            rep.disk.with(|d| {
                d.fail_writes.clear();
                d.disk_full = false;
            });
        }
    };
    clear(&mut w0);
    let before_items = w0.replicas[r].disk.items();
    let before_live = match w0.digest_of(r) {
        Ok(d) => d,
        Err(_) => return Ok(()),
    };
    w0.replicas[r].disk.with(|d| {
        d.snap_on = true;
        d.snaps.clear();
        d.log.clear();
    });
    if w0.exec(op).is_err() {
        return Ok(());
    }
    let (mut snaps, log) = w0.replicas[r].disk.with(|d| {
        d.snap_on = false;
        (std::mem::take(&mut d.snaps), d.log.clone())
    });
    let _ = log;
    let final_items = w0.replicas[r].disk.items();
    w.add("fault.crash_snapshot", snaps.len() as u64 + 1);
    snaps.push(final_items.clone());
    let nwrites = snaps.len() - 1;
    if nwrites == 0 {
        return Ok(());
    }
    if is_commit && w0.replicas[r].failed_commit_pending {
        return Ok(());
    }
    w.bump("enum.targets");
    if is_commit {
        w.bump("enum.commit_targets");
    } else {
        w.bump("enum.meld_targets");
    }
    let pre = match open_on(&snaps[0], 1) {
        Ok(Ok(m)) => digest(&m).ok(),
        _ => None,
    };
    let post = match open_on(&final_items, 1) {
        Ok(Ok(m)) => digest(&m).ok(),
        _ => None,
    };
    let nothing_held_back = {
        let st0 = RefState::from_items(&snaps[0]);
        st0.blocks.len() == st0.complete.len()
    };
    if !nothing_held_back {
        w.bump("probe.c09_target_with_held_back_block");
    }
    // --- crash at every write boundary: only what was durable survives
    for (k, snap) in snaps.iter().enumerate() {
        w.bump("enum.crash_points");
        let m = match open_on(snap, k as u64 + 7) {
            Ok(Ok(m)) => m,
            Ok(Err(e)) => viol!(w, "crash-reopen", "crash-reopen-err", "op #{} ({}) crash at write boundary {}/{}: the restarted replica cannot open its storage: {}", i + 1, op.name(), k, nwrites, e),
            Err(c) => viol!(w, "crash-reopen", format!("crash-reopen-{}", c.class()), "op #{} ({}) crash at write boundary {}/{}: opening the storage does not return: {}", i + 1, op.name(), k, nwrites, c.text()),
        };
        let d = match digest(&m) {
            Ok(d) => d,
            Err(c) => viol!(w, "crash-reopen", format!("crash-read-{}", c.class()), "op #{} ({}) crash at write boundary {}/{}: reading the restarted replica does not return: {}", i + 1, op.name(), k, nwrites, c.text()),
        };
        let st = RefState::from_items(snap);
        let mut wx = World::new_empty(cfg.clone());
        wx.prop = w.prop.clone();
        wx.step = w.step;
        if let Err(Stop::Violation(mut v)) = wx.compare_with_ref(r, &d, &st, "crash") {
            v.class = format!("crash-{}", v.class);
            v.detail = format!("op #{} ({}) crash at write boundary {}/{}: {}", i + 1, op.name(), k, nwrites, v.detail);
            return Err(Stop::Violation(v));
        }
        if is_commit {
            // "either the previous or the new state": only when nothing foreign is held back — a
            // held-back foreign block can become complete through this commit's pack alone (same
            // objects, same pack), which is a third legitimate state; per-commit atomicity is then
            // still decided by the comparison with RefStore(snapshot) above.
            if nothing_held_back && Some(&d) != pre.as_ref() && Some(&d) != post.as_ref() {
                viol!(w, "commit-all-or-nothing", "crash-mixed-state", "op #{} (commit) crash at write boundary {}/{}: the restarted replica sees neither the previous nor the new state: vs previous: {}; vs new: {}", i + 1, k, nwrites,
                    pre.as_ref().map(|p| diff_digest(p, &d)).unwrap_or_default(), post.as_ref().map(|p| diff_digest(p, &d)).unwrap_or_default());
            }
            // a block never reaches storage before the pack it names
            for key in snap.keys().filter(|k| k.ends_with(".delta") && !before_items.contains_key(*k)) {
                if let Some(b) = refstore::parse_block(key, &snap[key]) {
                    for p in &b.packs {
                        if !snap.contains_key(&format!("{}.pack", p)) {
                            viol!(w, "pack-before-block", "block-before-pack", "op #{} (commit): at write boundary {}/{} block {} is durable but its pack {} is not", i + 1, k, nwrites, key, p);
                        }
                    }
                }
            }
        }
    }
    // --- crash, restart, redo: the restarted user submits the same document again and commits. The
    // crash state must be a good state to continue from (orphan packs included): the redo succeeds,
    // shows the submitted document, and a reopened replica agrees with the live one
    if is_commit {
        let doc0 = fork(cfg, &ops[..i]).and_then(|wx| wx.replicas[r].model_doc.clone());
        if let Some(doc) = doc0 {
            for (k, snap) in snaps.iter().enumerate().take(nwrites) {
                let mut wc = match fork(cfg, &ops[..i]) {
                    Some(x) => x,
                    None => break,
                };
                clear(&mut wc);
                wc.replicas[r].disk.with(|d| d.map = snap.clone());
                w.bump("enum.crash_redo");
                let tag = format!("op #{} (commit) crash at write boundary {}/{}, restart, same document submitted again, commit", i + 1, k, nwrites);
                let steps: [Op; 3] = [Op::Restart { r }, Op::Update { r, doc: doc.clone(), twice: false }, op.clone()];
                let mut failed = None;
                for (si, o) in steps.iter().enumerate() {
                    if let Err(e) = wc.exec(o) {
                        failed = Some((o.name(), e));
                        break;
                    }
                    if si == 1 {
                        // right after the update (the restart may have brought in concurrent work that was
                        // on disk but not yet refreshed: only without an array in conflict is the read exact)
                        let d1 = wc.digest_of(r)?;
                        let arr_conf = d1["in_conflict"].as_array().map_or(false, |a| a.iter().any(|u| u.as_str().map_or(false, |s| s.starts_with('^'))));
                        if !arr_conf {
                            if let Some(rd) = d1["doc"].get("ok") {
                                if let Err(e) = crate::docgen::same_modulo_ids(&doc, rd) {
                                    viol!(w, "crash-redo", "crash-redo-read-differs", "{}: the document read after the update differs from the one submitted: {}", tag, e);
                                }
                            }
                        }
                    }
                }
                if let Some((name, e)) = failed {
                    let txt = match e {
                        Stop::Violation(v) => v.detail,
                        Stop::Inconclusive(t) => t,
                    };
                    viol!(w, "crash-redo", format!("crash-redo-failed:{}", name), "{}: {} does not succeed: {}", tag, name, txt);
                }
                let live = wc.digest_of(r)?;
                let held = api::block_status(wc.replicas[r].live.as_ref().unwrap()).values().any(|s| s != "applied");
                if !held {
                    let again = match open_on(&wc.replicas[r].disk.items(), 5) {
                        Ok(Ok(m)) => digest(&m).ok(),
                        _ => None,
                    };
                    if again.as_ref() != Some(&live) {
                        viol!(w, "crash-redo", "crash-redo-reopen-differs", "{}: a replica reopened afterwards differs from the live one: {}", tag, again.as_ref().map(|a| diff_digest(&live, a)).unwrap_or_else(|| "open failed".into()));
                    }
                    // the durable result includes what a peer obtains: a new replica that melds from
                    // this one and refreshes sees the same state (the redone commit may rely on
                    // objects of the pack the interrupted commit left behind)
                    let pd = DiskRef::new(7);
                    let ps = pd.store();
                    let src = wc.replicas[r].live.as_ref().unwrap();
                    let peer = guard(|| -> Result<Value, String> {
                        let mut p = Melda::new(ps).map_err(|e| e.to_string())?;
                        p.meld(src).map_err(|e| format!("meld: {}", e))?;
                        p.refresh().map_err(|e| format!("refresh: {}", e))?;
                        digest(&p).map_err(|c| c.text().to_string())
                    });
                    w.bump("enum.crash_redo_peer");
                    match peer {
                        Ok(Ok(pdg)) if pdg == live => {}
                        Ok(Ok(pdg)) => viol!(w, "crash-redo", "crash-redo-peer-differs", "{}: a new replica that melds from this one and refreshes does not see its state: {}", tag, diff_digest(&live, &pdg)),
                        Ok(Err(e)) => viol!(w, "crash-redo", "crash-redo-peer-failed", "{}: a new replica cannot meld from this one: {}", tag, e),
                        Err(c) => viol!(w, "crash-redo", format!("crash-redo-peer-{}", c.class()), "{}: a new replica that melds from this one does not return: {}", tag, c.text()),
                    }
                }
            }
        }
    }
    // --- write failures: every position, single and repeated, and a full disk
    let modes: Vec<(usize, u32, bool)> = (1..=nwrites).flat_map(|j| [(j, 1u32, false), (j, 2, false), (j, 3, false)]).chain(std::iter::once((1, 0, true))).collect();
    for (j, rep, full) in modes {
        let mut wf = match fork(cfg, &ops[..i]) {
            Some(x) => x,
            None => return Ok(()),
        };
        clear(&mut wf);
        wf.prop = w.prop.clone(); // oracles of op_commit / op_meld for failed operations are on
        if full {
            wf.replicas[r].disk.with(|d| d.disk_full = true);
        } else {
            wf.replicas[r].disk.with(|d| {
                for x in 0..rep as u64 {
                    d.fail_writes.insert(d.writes + j as u64 + x);
                }
            });
        }
        w.bump("enum.write_failures");
        let staged_before = if is_commit { wf.live_stage(r) } else { None };
        wf.step = w.step;
        let tag = format!("op #{} ({}) with write {}/{} failing{}{}", i + 1, op.name(), j, nwrites, if rep > 1 { format!(" {} times in a row", rep) } else { String::new() }, if full { " (disk full)" } else { "" });
        let res = wf.exec(op);
        if let Err(Stop::Violation(mut v)) = res {
            v.detail = format!("{}: {}", tag, v.detail);
            return Err(Stop::Violation(v));
        }
        if res.is_err() {
            continue;
        }
        let (fe, ff) = wf.replicas[r].disk.with(|d| (d.fired.write_err, d.fired.disk_full));
        w.add("fault.write_err", fe);
        w.add("fault.disk_full", ff);
        let fired = fe + ff > 0;
        if !fired {
            continue;
        }
        if is_commit {
            if !wf.replicas[r].failed_commit_pending {
                viol!(w, "failed-write-reported", "commit-ok-despite-write-failure", "{}: commit reported success", tag);
            }
            let d = wf.digest_of(r)?;
            if d["doc"] != before_live["doc"] {
                viol!(w, "failed-commit-keeps-stage", "failed-commit-changed-doc", "{}: the document changed: {}", tag, diff_digest(&before_live, &d));
            }
            if wf.live_stage(r).is_none() && staged_before.is_some() {
                viol!(w, "failed-commit-keeps-stage", "failed-commit-lost-stage", "{}: the staged changes are gone", tag);
            }
            // nothing but (at most) an unreferenced pack more than before
            let now = wf.replicas[r].disk.items();
            for k in now.keys().filter(|k| !before_items.contains_key(*k)) {
                if !k.ends_with(".pack") {
                    viol!(w, "failed-commit-durable", "failed-commit-left-block", "{}: the failed commit left {} in storage", tag, k);
                }
            }
        }
        // faults stop: retry until it succeeds (each armed failure may hit one retry)
        wf.replicas[r].disk.with(|d| d.disk_full = false);
        let mut okd = false;
        for _ in 0..5 {
            let armed = wf.replicas[r].disk.with(|d| !d.fail_writes.is_empty());
            let res = wf.exec(op);
            if let Err(Stop::Violation(mut v)) = res {
                v.detail = format!("{} (retry): {}", tag, v.detail);
                return Err(Stop::Violation(v));
            }
            if res.is_err() {
                break;
            }
            let pending = if is_commit { wf.replicas[r].failed_commit_pending } else { armed };
            if !pending {
                okd = true;
                break;
            }
        }
        if !okd {
            continue;
        }
        w.bump("enum.retries_completed");
        let now = wf.replicas[r].disk.items();
        // same durable result as the uninterrupted operation (an orphan pack aside)
        let extra: Vec<&String> = now.keys().filter(|k| !final_items.contains_key(*k)).collect();
        let missing: Vec<&String> = final_items.keys().filter(|k| !now.contains_key(*k)).collect();
        if !missing.is_empty() || extra.iter().any(|k| !k.ends_with(".pack")) {
            viol!(w, "retry-same-durable-result", if is_commit { "retry-different-items" } else { "meld-retry-different-items" },
                "{}: after the retry the store differs from that of the uninterrupted operation: missing {:?}, extra {:?}", tag, missing, extra);
        }
        let d1 = match open_on(&now, 3) {
            Ok(Ok(m)) => digest(&m).ok(),
            _ => None,
        };
        if d1 != post {
            viol!(w, "retry-same-durable-result", "retry-different-state", "{}: after the retry a reopened replica differs from the uninterrupted one: {}", tag, match (&post, &d1) { (Some(a), Some(b)) => diff_digest(a, b), _ => "open failed".into() });
        }
    }
    Ok(())
}

impl World {
    pub fn live_stage(&self, r: usize) -> Option<Value> {
        let m = self.replicas[r].live.as_ref()?;
        guard(|| m.stage().ok().flatten()).ok().flatten()
    }
}

// ------------------------------------------------------------------------------------ C10

#[derive(Clone, Debug)]
enum Damage {
    Flip(String, usize, u8),
    Truncate(String, usize),
    Delete(Vec<String>),
    Junk(String, Vec<u8>),
}

impl Damage {
    fn kind(&self) -> &'static str {
        match self {
            Damage::Flip(..) => "bitflip",
            Damage::Truncate(_, 0) => "empty",
            Damage::Truncate(..) => "truncate",
            Damage::Delete(v) if v.len() == 1 => "delete",
            Damage::Delete(_) => "delete_many",
            Damage::Junk(..) => "junk",
        }
    }
    fn apply(&self, items: &mut Items) {
        match self {
            Damage::Flip(k, pos, bit) => {
                if let Some(v) = items.get_mut(k) {
                    if *pos < v.len() {
                        v[*pos] ^= 1 << bit;
                    }
                }
            }
            Damage::Truncate(k, len) => {
                if let Some(v) = items.get_mut(k) {
                    v.truncate(*len);
                }
            }
            Damage::Delete(ks) => {
                for k in ks {
                    items.remove(k);
                }
            }
            Damage::Junk(k, v) => {
                items.entry(k.clone()).or_insert_with(|| v.clone());
            }
        }
    }
    fn describe(&self) -> String {
        match self {
            Damage::Flip(k, p, b) => format!("flip bit {} of byte {} of {}", b, p, k),
            Damage::Truncate(k, l) => format!("truncate {} to {} bytes", k, l),
            Damage::Delete(ks) => format!("delete {:?}", ks),
            Damage::Junk(k, v) => format!("inject {} ({} bytes)", k, v.len()),
        }
    }
}

fn damages(items: &Items, rng: &mut Rng, thorough: bool) -> Vec<Damage> {
    let mut out = vec![];
    let keys: Vec<String> = items.keys().cloned().collect();
    for k in &keys {
        let n = items[k].len();
        if n == 0 {
            continue;
        }
        if thorough && n <= 4096 {
            for p in 0..n {
                out.push(Damage::Flip(k.clone(), p, rng.below(8) as u8));
            }
            for l in 0..n {
                out.push(Damage::Truncate(k.clone(), l));
            }
        } else {
            let mut pos: BTreeSet<usize> = [0, n - 1].into_iter().collect();
            for _ in 0..8 {
                pos.insert(rng.below(n));
            }
            for p in pos {
                out.push(Damage::Flip(k.clone(), p, rng.below(8) as u8));
            }
            for l in [0, 1, n / 2, n - 1] {
                if l < n {
                    out.push(Damage::Truncate(k.clone(), l));
                }
            }
        }
        out.push(Damage::Delete(vec![k.clone()]));
    }
    for a in 0..keys.len() {
        for b in a + 1..keys.len() {
            out.push(Damage::Delete(vec![keys[a].clone(), keys[b].clone()]));
            if thorough {
                for c in b + 1..keys.len().min(b + 4) {
                    out.push(Damage::Delete(vec![keys[a].clone(), keys[b].clone(), keys[c].clone()]));
                }
            }
        }
    }
    // junk with ASCII names carrying block or pack extensions
    let hexd = |rng: &mut Rng| sha_hex(&rng.next().to_le_bytes());
    out.push(Damage::Junk(format!("{}.delta", hexd(rng)), b"{}".to_vec()));
    out.push(Damage::Junk(format!("{}-{}.delta", rng.range(1, 5), hexd(rng)), b"{\"c\":[[\"x\",\"abc\"]]}".to_vec()));
    out.push(Damage::Junk(format!("99999999999999999999-{}.delta", hexd(rng)), b"{}".to_vec()));
    out.push(Damage::Junk(format!("4294967296-{}.delta", hexd(rng)), b"{}".to_vec()));
    out.push(Damage::Junk(format!("{}.pack", hexd(rng)), b"[{\"a\":1}]".to_vec()));
    out.push(Damage::Junk(format!("{}-{}.delta", rng.range(1, 3), hexd(rng)), b"not json at all \xff\xfe".to_vec()));
    out.push(Damage::Junk("-.delta".to_string(), b"{}".to_vec()));
    out.push(Damage::Junk("1-.delta".to_string(), b"{}".to_vec()));
    out.push(Damage::Junk(".pack".to_string(), b"[]".to_vec()));
    out.push(Damage::Junk("abc.delta".to_string(), b"{}".to_vec()));
    // a self-consistent junk block (valid name for its bytes) that references nothing known
    let body = format!("{{\"c\":[[\"ghost\",\"{}\"]]}}", hexd(rng));
    out.push(Damage::Junk(format!("1-{}.delta", sha_hex(body.as_bytes())), body.into_bytes()));
    // valid bytes re-filed under another index
    if let Some(k) = keys.iter().find(|k| k.ends_with(".delta")) {
        if let Some((_, d)) = k.trim_end_matches(".delta").split_once('-') {
            out.push(Damage::Junk(format!("7-{}.delta", d), items[k].clone()));
            out.push(Damage::Junk(format!("01-{}.delta", d), items[k].clone()));
        }
    }
    if let Some(k) = keys.iter().find(|k| k.ends_with(".pack")) {
        out.push(Damage::Junk(format!("{}.pack", hexd(rng)), items[k].clone()));
    }
    // self-consistent forged packs (the file name does match the bytes, no block names them): entries that
    // *claim*, through the reserved hash field, to be an object that is already stored. Objects are addressed
    // by the hash of their own bytes, so such a pack must stay without effect on every stored revision.
    let mut forged = 0;
    'forge: for k in keys.iter().filter(|k| k.ends_with(".pack")) {
        for (o, l) in crate::refstore::pack_spans(&items[k]) {
            if forged >= 4 {
                break 'forge;
            }
            let d = sha_hex(&items[k][o..o + l]);
            let body = if forged % 2 == 0 { format!("[{{\"#\":\"{}\",\"forged\":true}}]", d) } else { format!("[{{\"forged\":{}}},{{\"#\":\"{}\"}}]", forged, d) };
            out.push(Damage::Junk(format!("{}.pack", sha_hex(body.as_bytes())), body.into_bytes()));
            forged += 1;
        }
    }
    out
}

/// revision -> value for every revision of the undamaged history
fn true_values(items: &Items) -> BTreeMap<(String, String), Value> {
    let st = RefState::from_items(items);
    let mut out = BTreeMap::new();
    for (u, t) in &st.trees {
        for r in t.keys() {
            if let Some(v) = st.value(r) {
                out.insert((u.clone(), r.clone()), Value::Object(v));
            }
        }
    }
    out
}

fn c10(w: &mut World, _ops: &[Op]) -> Res {
    let thorough = std::env::var("VERIF_TIER").map_or(false, |t| t == "thorough");
    let mut rng = Rng::derive(w.cfg.seed, 0xC10);
    let disks = w.disks();
    // the richest store and (in transit) a replica that lacks part of it
    let (ri, items) = match disks.iter().enumerate().max_by_key(|(_, d)| d.len()) {
        Some((i, d)) if !d.is_empty() => (i, d.clone()),
        _ => return Ok(()),
    };
    let truth = true_values(&items);
    let cfg = w.cfg.clone();
    let ds = damages(&items, &mut rng, thorough);
    for dmg in &ds {
        let mut damaged = items.clone();
        dmg.apply(&mut damaged);
        w.bump(&format!("fault.damage_{}", dmg.kind()));
        w.bump("enum.damage_cases");
        // at rest: a replica opened on the damaged storage
        c10_case(w, &cfg, ri, &damaged, &truth, None, dmg, "at rest, then open")?;
    }
    // live: an already opened replica whose packs are damaged afterwards must still never return
    // altered content (every read from a pack re-verifies the object digest)
    c10_live(w, &cfg, &items, &truth, &mut rng, thorough)?;
    // a walk: items arrive, are damaged, deleted and restored under an open replica, with a refresh
    // (sometimes a reload) after each step
    for round in 0..(if thorough { 6 } else { 2 }) {
        c10_walk(w, &cfg, &items, &truth, &mut rng, round, false)?;
    }
    // in transit: a live replica holds a causally closed part; the rest arrives damaged, then refresh
    let st = RefState::from_items(&items);
    let mut heads: Vec<&String> = st.heads.iter().collect();
    heads.sort();
    if let Some(h) = heads.first() {
        let b = &st.blocks[*h];
        let mut part = items.clone();
        part.remove(&format!("{}.delta", h));
        for p in &b.packs {
            part.remove(&format!("{}.pack", p));
        }
        let late: Items = items.iter().filter(|(k, _)| !part.contains_key(*k)).map(|(k, v)| (k.clone(), v.clone())).collect();
        let lds = damages(&late, &mut rng, false);
        for dmg in lds.iter().filter(|d| !matches!(d, Damage::Delete(_))) {
            let mut arriving = late.clone();
            dmg.apply(&mut arriving);
            w.bump("enum.damage_cases_in_transit");
            w.bump(&format!("fault.transit_{}", dmg.kind()));
            c10_case(w, &cfg, ri, &part, &truth, Some(&arriving), dmg, "in transit, then refresh")?;
        }
    }
    Ok(())
}

fn c10_live(w: &mut World, cfg: &RunCfg, items: &Items, truth: &BTreeMap<(String, String), Value>, rng: &mut Rng, thorough: bool) -> Res {
    let disk = DiskRef::from_items(items.clone(), cfg.list_seed ^ 0x11);
    let store = disk.store();
    let m = match guard(|| Melda::new(store).map_err(|e| e.to_string())) {
        Ok(Ok(m)) => m,
        _ => return Ok(()),
    };
    // blocks damaged under an open replica, then reload() on that very instance: an error, or
    // exactly the state of the damaged store
    let blocks: Vec<String> = items.keys().filter(|k| k.ends_with(".delta")).cloned().collect();
    for b in blocks {
        let n = items[&b].len();
        let positions: Vec<usize> = if thorough && n <= 4096 { (0..n).collect() } else { (0..10).map(|_| rng.below(n)).collect() };
        for pos in positions {
            let bit = rng.below(8) as u8;
            disk.with(|d| d.map.get_mut(&b).unwrap()[pos] ^= 1 << bit);
            w.bump("enum.damage_cases_live");
            w.bump("fault.live_block_bitflip");
            let what = format!("flip bit {} of byte {} of {} while a replica is open, then reload()", bit, pos, b);
            match guard(|| m.reload().map_err(|e| e.to_string())) {
                Ok(Ok(())) => {
                    let d = match digest(&m) {
                        Ok(d) => d,
                        Err(c) => viol!(w, "damaged-read-returns", format!("damage-live-read-{}", c.class()), "{}: reading does not return: {}", what, c.text()),
                    };
                    let st = RefState::from_items(&disk.items());
                    let mut wx = World::new_empty(cfg.clone());
                    wx.prop = w.prop.clone();
                    wx.step = w.step;
                    if let Err(Stop::Violation(mut v)) = wx.compare_with_ref(0, &d, &st, "damaged") {
                        v.class = format!("damage-live-reload-{}", v.class);
                        v.detail = format!("{}: {}", what, v.detail);
                        return Err(Stop::Violation(v));
                    }
                }
                Ok(Err(_)) => w.bump("probe.damage_live_reload_err"),
                Err(c) => viol!(w, "damaged-refresh-returns", format!("damage-live-{}", c.class()), "{}: reload does not return: {}", what, c.text()),
            }
            disk.with(|d| d.map.get_mut(&b).unwrap()[pos] ^= 1 << bit);
        }
    }
    // back to the undamaged state before the pack cases
    let _ = guard(|| m.reload().map_err(|e| e.to_string()));
    let packs: Vec<String> = items.keys().filter(|k| k.ends_with(".pack")).cloned().collect();
    for p in packs {
        let n = items[&p].len();
        let positions: Vec<usize> = if thorough && n <= 4096 { (0..n).collect() } else { (0..8).map(|_| rng.below(n)).collect() };
        for pos in positions {
            let bit = rng.below(8) as u8;
            disk.with(|d| d.map.get_mut(&p).unwrap()[pos] ^= 1 << bit);
            w.bump("enum.damage_cases_live");
            w.bump("fault.live_bitflip");
            for ((u, rev), tv) in truth {
                match guard(|| m.get_value(u, Some(rev)).ok()) {
                    Ok(Some(v)) => {
                        w.bump("probe.damage_value_checked");
                        if &Value::Object(v.clone()) != tv {
                            viol!(w, "no-altered-content", "damage-live-altered-content", "flip bit {} of byte {} of {} while a replica is open: revision {} of {} now reads {} (stored: {})", bit, pos, p, rev, u, trunc(&Value::Object(v)), trunc(tv));
                        }
                    }
                    Ok(None) => w.bump("probe.damage_live_read_refused"),
                    Err(c) => viol!(w, "damaged-read-returns", format!("damage-live-value-{}", c.class()), "flip bit {} of byte {} of {} while a replica is open: get_value({}, {}) does not return: {}", bit, pos, p, u, rev, c.text()),
                }
            }
            disk.with(|d| d.map.get_mut(&p).unwrap()[pos] ^= 1 << bit);
        }
    }
    Ok(())
}

/// C11 under storage damage: one damage walk per history (a third of the quick runs); what a peer
/// obtains by melding from a replica whose storage was damaged is still content-addressed and
/// byte-identical to the author's copy.
fn c11(w: &mut World) -> Res {
    let thorough = std::env::var("VERIF_TIER").map_or(false, |t| t == "thorough");
    if cfg!(feature = "real") || (!thorough && w.cfg.seed % 3 != 0) {
        return Ok(());
    }
    let cfg = w.cfg.clone();
    let disks = w.disks();
    let items = match disks.iter().max_by_key(|d| d.len()) {
        Some(d) if d.len() >= 3 => d.clone(),
        _ => return Ok(()),
    };
    let truth = true_values(&items);
    let mut rng = Rng::derive(cfg.seed, 0xC11);
    c10_walk(w, &cfg, &items, &truth, &mut rng, 0, false)
}

/// Items arrive, are damaged, deleted and restored while a replica stays open. After each step the
/// replica refreshes (one time in five: reloads). A block that starts to take effect in a refresh must
/// be causally complete and intact in the storage as it is at that moment; values are never altered;
/// whenever every item that was ever delivered is intact again, the replica shows exactly the state of
/// its storage; at the end everything is delivered and restored and the full state must appear.
fn c10_walk(w: &mut World, cfg: &RunCfg, items: &Items, truth: &BTreeMap<(String, String), Value>, rng: &mut Rng, round: usize, torn_only: bool) -> Res {
    let keys: Vec<String> = items.keys().cloned().collect();
    if keys.len() < 3 {
        return Ok(());
    }
    // start without 1..3 items
    let mut absent: BTreeSet<String> = BTreeSet::new();
    for _ in 0..(1 + rng.below(3.min(keys.len() - 1))) {
        absent.insert(rng.pick(&keys).clone());
    }
    let start: Items = items.iter().filter(|(k, _)| !absent.contains(*k)).map(|(k, v)| (k.clone(), v.clone())).collect();
    let disk = DiskRef::from_items(start, cfg.list_seed ^ 0x12 ^ round as u64);
    let store = disk.store();
    let mut m = match guard(|| Melda::new(store).map_err(|e| e.to_string())) {
        Ok(Ok(m)) => m,
        _ => return Ok(()),
    };
    let full = RefState::from_items(items);
    let applied_of = |m: &Melda| -> BTreeSet<String> { api::block_status(m).into_iter().filter(|(_, s)| s == "applied").map(|(k, _)| k).collect() };
    let mut applied_prev = applied_of(&m);
    let mut hurt: BTreeSet<String> = BTreeSet::new(); // delivered once, now damaged or deleted
    let steps = 4 + rng.below(7);
    let mut trail: Vec<String> = vec![];
    for s in 0..=steps {
        let last = s == steps;
        if last {
            disk.with(|d| d.map = items.clone());
            absent.clear();
            hurt.clear();
            trail.push("everything delivered and restored".to_string());
        } else {
            let present_intact: Vec<String> = keys.iter().filter(|k| !absent.contains(*k) && !hurt.contains(*k)).cloned().collect();
            let choice = rng.below(10);
            if choice < 3 && !absent.is_empty() {
                let k = rng.pick(&absent.iter().cloned().collect::<Vec<_>>()).clone();
                disk.with(|d| d.map.insert(k.clone(), items[&k].clone()));
                absent.remove(&k);
                w.bump("fault.walk_deliver");
                trail.push(format!("deliver {}", k));
            } else if choice < 5 && !hurt.is_empty() {
                let k = rng.pick(&hurt.iter().cloned().collect::<Vec<_>>()).clone();
                disk.with(|d| d.map.insert(k.clone(), items[&k].clone()));
                hurt.remove(&k);
                w.bump("fault.walk_restore");
                trail.push(format!("restore {}", k));
            } else if torn_only {
                // transit fault only: an item becomes visible before it is complete (torn copy)
                if absent.is_empty() {
                    continue;
                }
                let k = rng.pick(&absent.iter().cloned().collect::<Vec<_>>()).clone();
                let len = rng.below(items[&k].len().max(1));
                disk.with(|d| d.map.insert(k.clone(), items[&k][..len].to_vec()));
                absent.remove(&k);
                hurt.insert(k.clone());
                w.bump("fault.walk_torn_arrival");
                trail.push(format!("{} arrives torn ({} of {} bytes visible)", k, len, items[&k].len()));
            } else if !present_intact.is_empty() {
                let k = rng.pick(&present_intact).clone();
                let n = items[&k].len();
                match rng.below(3) {
                    0 => {
                        disk.with(|d| d.map.remove(&k));
                        w.bump("fault.walk_delete");
                        trail.push(format!("delete {}", k));
                    }
                    1 if n > 0 => {
                        let (pos, bit) = (rng.below(n), rng.below(8) as u8);
                        disk.with(|d| d.map.get_mut(&k).unwrap()[pos] ^= 1 << bit);
                        w.bump("fault.walk_bitflip");
                        trail.push(format!("flip bit {} of byte {} of {}", bit, pos, k));
                    }
                    _ => {
                        let len = rng.below(n.max(1));
                        disk.with(|d| d.map.get_mut(&k).unwrap().truncate(len));
                        w.bump("fault.walk_truncate");
                        trail.push(format!("truncate {} to {} bytes", k, len));
                    }
                }
                hurt.insert(k);
            } else {
                continue;
            }
        }
        // a peer melds from the replica while its storage is in this condition: whatever reaches the
        // peer's storage is named by the SHA-256 of its bytes and equals the author's copy (damage is
        // never passed on under a good name)
        if rng.chance(1, 3) {
            let pd = DiskRef::new(cfg.list_seed ^ 0x13);
            let ps = pd.store();
            let src = &m;
            let res = guard(|| -> Result<(), String> {
                let p = Melda::new(ps).map_err(|e| e.to_string())?;
                let _ = p.meld(src);
                Ok(())
            });
            w.bump("enum.damage_walk_melds");
            if let Err(c) = res {
                viol!(w, "damaged-meld-returns", format!("damage-walk-meld-{}", c.class()), "a replica opened on {} items, then [{}]: a new replica melding from it does not return: {}", keys.len() - absent.len().min(keys.len()), trail.join("; "), c.text());
            }
            for (k, bytes) in pd.items() {
                let name_ok = match (k.strip_suffix(".pack"), k.strip_suffix(".delta")) {
                    (Some(n), _) => n == sha_hex(&bytes),
                    (_, Some(n)) => n.split_once('-').map_or(false, |(_, d)| d == sha_hex(&bytes)),
                    _ => true,
                };
                if !name_ok || items.get(&k).map_or(false, |orig| orig != &bytes) {
                    viol!(w, "meld-copies-only-intact-items", "damage-walk-meld-spread-altered-item", "a replica opened on {} items, then [{}]: a new replica melds from it and stores {} ({} bytes) which {}", keys.len() - absent.len().min(keys.len()), trail.join("; "), k, bytes.len(),
                        if name_ok { "differs from the author's copy" } else { "is not named by the SHA-256 of its bytes" });
                }
            }
        }
        let reload = !last && rng.chance(1, 5);
        let call = if reload { "reload" } else { "refresh" };
        let what = format!("a replica opened on {} of {} items, then [{}], then {}", keys.len() - absent.len().min(keys.len()), keys.len(), trail.join("; "), call);
        w.bump("enum.damage_walk_steps");
        let clean = hurt.is_empty();
        match guard(|| if reload { m.reload().map_err(|e| e.to_string()) } else { m.refresh().map_err(|e| e.to_string()) }) {
            Err(c) => viol!(w, "damaged-refresh-returns", format!("damage-walk-{}", c.class()), "{}: does not return: {}", what, c.text()),
            Ok(Err(e)) => {
                w.bump("probe.damage_walk_refresh_err");
                if clean {
                    viol!(w, "intact-refresh-succeeds", "damage-walk-refresh-err-on-intact-storage", "{}: every stored item is intact, yet {} fails: {}", what, call, e);
                }
                // what takes effect is judged at the next successful call
            }
            Ok(Ok(())) => {
                let now = disk.items();
                let st = RefState::from_items(&now);
                let applied = applied_of(&m);
                if reload {
                    // everything is derived anew from the storage as it is
                    for b in &applied {
                        if !st.complete.contains(b) {
                            viol!(w, "effect-only-if-intact", "damage-walk-reload-applied-incomplete-block", "{}: block {} takes effect although, in the storage as it is now, it is not intact and causally complete (block, ancestors, named packs, objects)", what, b);
                        }
                    }
                } else {
                    // what the replica verified and applied earlier stays; a block that starts to take
                    // effect now needs its parents applied and the packs it names present and intact now
                    for b in applied.difference(&applied_prev) {
                        let blk = match full.blocks.get(b) {
                            Some(x) => x,
                            None => viol!(w, "effect-only-if-intact", "damage-walk-applied-unknown-block", "{}: block {} takes effect but no intact item of that name was ever stored", what, b),
                        };
                        if let Some(p) = blk.parents.iter().find(|p| !applied.contains(*p)) {
                            viol!(w, "effect-only-if-intact", "damage-walk-applied-without-parent", "{}: block {} takes effect without its parent {}", what, b, p);
                        }
                        if let Some(p) = blk.packs.iter().find(|p| now.get(&format!("{}.pack", p)).map_or(true, |bytes| &sha_hex(bytes) != *p)) {
                            viol!(w, "effect-only-if-intact", "damage-walk-applied-without-pack", "{}: block {} starts to take effect although the pack {} it names is, in the storage as it is now, missing or does not hash to its name", what, b, p);
                        }
                    }
                }
                if clean || reload {
                    for b in &st.complete {
                        if !applied.contains(b) {
                            viol!(w, "restored-items-apply", "damage-walk-complete-block-held-back", "{}: block {} is intact and complete in storage but does not take effect", what, b);
                        }
                    }
                }
                applied_prev = applied;
                for ((u, rev), tv) in truth {
                    match guard(|| m.get_value(u, Some(rev)).ok()) {
                        Ok(Some(v)) => {
                            w.bump("probe.damage_value_checked");
                            if &Value::Object(v.clone()) != tv {
                                viol!(w, "no-altered-content", "damage-walk-altered-content", "{}: revision {} of {} now reads {} (stored: {})", what, rev, u, trunc(&Value::Object(v)), trunc(tv));
                            }
                        }
                        Ok(None) => {}
                        Err(c) => viol!(w, "damaged-read-returns", format!("damage-walk-value-{}", c.class()), "{}: get_value({}, {}) does not return: {}", what, u, rev, c.text()),
                    }
                }
                if clean {
                    w.bump("probe.damage_walk_clean_compared");
                    let d = match digest(&m) {
                        Ok(d) => d,
                        Err(c) => viol!(w, "damaged-read-returns", format!("damage-walk-read-{}", c.class()), "{}: every stored item is intact, yet reading does not return: {}", what, c.text()),
                    };
                    let mut wx = World::new_empty(cfg.clone());
                    wx.prop = w.prop.clone();
                    wx.step = w.step;
                    if let Err(Stop::Violation(mut v)) = wx.compare_with_ref(0, &d, &st, "damage-walk") {
                        v.class = format!("damage-walk-{}", v.class);
                        v.detail = format!("{}: {}", what, v.detail);
                        return Err(Stop::Violation(v));
                    }
                }
            }
        }
    }
    Ok(())
}

fn c10_case(w: &mut World, cfg: &RunCfg, r: usize, base: &Items, truth: &BTreeMap<(String, String), Value>, arriving: Option<&Items>, dmg: &Damage, mode: &str) -> Res {
    let disk = DiskRef::from_items(base.clone(), cfg.list_seed ^ 0x10);
    let store = disk.store();
    let opened = guard(|| Melda::new(store).map_err(|e| e.to_string()));
    let what = format!("{} ({})", dmg.describe(), mode);
    let mut m = match opened {
        Ok(Ok(m)) => m,
        Ok(Err(_)) => {
            w.bump("probe.damage_open_err");
            return Ok(());
        }
        Err(c) => viol!(w, "damaged-open-returns", format!("damage-{}", c.class()), "{}: opening does not return: {}", what, c.text()),
    };
    let mut all = base.clone();
    if let Some(a) = arriving {
        disk.with(|d| {
            for (k, v) in a {
                d.map.entry(k.clone()).or_insert_with(|| v.clone());
            }
        });
        for (k, v) in a {
            all.entry(k.clone()).or_insert_with(|| v.clone());
        }
        match guard(|| m.refresh().map_err(|e| e.to_string())) {
            Ok(Ok(())) => {}
            Ok(Err(_)) => {
                w.bump("probe.damage_refresh_err");
                return Ok(());
            }
            Err(c) => viol!(w, "damaged-refresh-returns", format!("damage-{}", c.class()), "{}: refresh does not return: {}", what, c.text()),
        }
    }
    let d = match digest(&m) {
        Ok(d) => d,
        Err(c) => viol!(w, "damaged-read-returns", format!("damage-read-{}", c.class()), "{}: reading the opened replica does not return: {}", what, c.text()),
    };
    w.bump("probe.damage_open_ok");
    // exactly the state derived from the intact, causally complete subset
    let st = RefState::from_items(&all);
    let mut wx = World::new_empty(cfg.clone());
    wx.prop = w.prop.clone();
    wx.step = w.step;
    if let Err(Stop::Violation(mut v)) = wx.compare_with_ref(r, &d, &st, "damaged") {
        v.class = format!("damage-{}-{}", dmg.kind(), v.class);
        v.detail = format!("{}: {}", what, v.detail);
        return Err(Stop::Violation(v));
    }
    // never altered content: every value returned equals the value the undamaged history gave that revision
    let objs: Vec<String> = d["objects"].as_array().unwrap().iter().map(|x| x.as_str().unwrap().to_string()).collect();
    for u in objs {
        if let Some(t) = api::dump_tree(&m, &u) {
            for (rev, _, _) in t {
                let v = guard(|| m.get_value(&u, Some(&rev)).ok());
                match v {
                    Ok(Some(v)) => {
                        w.bump("probe.damage_value_checked");
                        if let Some(tv) = truth.get(&(u.clone(), rev.clone())) {
                            if &Value::Object(v.clone()) != tv {
                                viol!(w, "no-altered-content", "damage-altered-content", "{}: revision {} of {} now reads {} (undamaged: {})", what, rev, u, trunc(&Value::Object(v)), trunc(tv));
                            }
                        }
                    }
                    Ok(None) => {}
                    Err(c) => viol!(w, "damaged-read-returns", format!("damage-value-{}", c.class()), "{}: get_value({}, {}) does not return: {}", what, u, rev, c.text()),
                }
            }
        }
    }
    Ok(())
}

// ------------------------------------------------------------------------------------ C18

fn semantic_trace(cfg: &RunCfg, ops: &[Op]) -> Option<Vec<Value>> {
    if cfg!(feature = "sched") {
        let (c, o) = (cfg.clone(), ops.to_vec());
        return match crate::sched::in_shuttle(crate::runner::sched_seed(cfg), cfg.pool, move || semantic_trace_inner(&c, &o)) {
            Ok(t) => t,
            Err(c) => Some(vec![json!(format!("runner: {}", c.class()))]),
        };
    }
    semantic_trace_inner(cfg, ops)
}

fn semantic_trace_inner(cfg: &RunCfg, ops: &[Op]) -> Option<Vec<Value>> {
    let mut c = cfg.clone();
    c.prop = "-".to_string();
    let mut w = World::new(c).ok()?;
    let mut out = vec![];
    for op in ops {
        if let Err(e) = w.exec(op) {
            out.push(json!(format!("stopped: {:?}", e)));
            return Some(out);
        }
        let mut step = vec![];
        for r in 0..w.replicas.len() {
            match w.digest_of(r) {
                Ok(d) => step.push(semantic(&d)),
                Err(Stop::Inconclusive(e)) => step.push(json!(format!("abort: {}", e))),
                Err(_) => step.push(json!("abort")),
            }
        }
        out.push(Value::Array(step));
    }
    Some(out)
}

fn c18(w: &mut World, ops: &[Op]) -> Res {
    let cfg = w.cfg.clone();
    let base = match semantic_trace(&cfg, ops) {
        Some(b) => b,
        None => return Ok(()),
    };
    let mut rng = Rng::derive(cfg.seed, 0xC18);
    let caps = [1u32, 2, 3, 16];
    let mut variants: Vec<(String, RunCfg)> = vec![];
    for i in 0..4 {
        let mut c = cfg.clone();
        c.hash_seed = rng.next();
        variants.push((format!("hash seed #{}", i), c));
    }
    for i in 0..3 {
        let mut c = cfg.clone();
        c.list_seed = rng.next();
        variants.push((format!("listing permutation #{}", i), c));
    }
    for i in 0..3 {
        let mut c = cfg.clone();
        c.order_seed = rng.next();
        variants.push((format!("parallel-loop order #{}", i), c));
    }
    for a in caps {
        for d in caps {
            if a == cfg.cache_ad && d == cfg.cache_data {
                continue;
            }
            // the full 4x4 grid over a batch; per history a seeded half of it
            if rng.chance(1, 2) {
                let mut c = cfg.clone();
                c.cache_ad = a;
                c.cache_data = d;
                variants.push((format!("cache capacities arrays={} data={}", a, d), c));
            }
        }
    }
    {
        let mut c = cfg.clone();
        c.hash_seed = rng.next();
        c.list_seed = rng.next();
        c.order_seed = rng.next();
        c.cache_ad = *rng.pick(&caps);
        c.cache_data = *rng.pick(&caps);
        variants.push(("everything varied".to_string(), c));
    }
    if cfg!(feature = "sched") {
        // worker-pool sizes 1..16 and other schedules (the schedule seed derives from order_seed)
        for k in [1usize, 2, 3, 4, 8, 16] {
            let mut c = cfg.clone();
            c.pool = k;
            c.order_seed = rng.next();
            variants.push((format!("pool size {}", k), c));
        }
    }
    for (name, c) in variants {
        w.bump("enum.config_variants");
        let t = match semantic_trace(&c, ops) {
            Some(t) => t,
            None => continue,
        };
        let kind = name.split(' ').next().unwrap_or("").to_string();
        w.bump(&format!("fault.config_{}", kind));
        for (i, (a, b)) in base.iter().zip(t.iter()).enumerate() {
            if a != b {
                let (ra, rb) = (a.as_array(), b.as_array());
                let detail = match (ra, rb) {
                    (Some(ra), Some(rb)) => ra.iter().zip(rb.iter()).enumerate().find(|(_, (x, y))| x != y).map(|(r, (x, y))| format!("replica {}: {}", r, diff_digest(x, y))).unwrap_or_default(),
                    _ => format!("{} vs {}", trunc(a), trunc(b)),
                };
                viol!(w, "config-independence", format!("config-dependent:{}", kind), "the same history under another {} gives a different state after op #{} ({}): {}\n base config {}\n variant {}", name, i + 1, ops[i].name(), detail, cfg.to_json(), c.to_json());
            }
        }
        if base.len() != t.len() {
            viol!(w, "config-independence", format!("config-dependent-length:{}", kind), "the same history under another {} stops after {} instead of {} ops", name, t.len(), base.len());
        }
    }
    // restore the nondeterminism inputs of this world's own configuration
    crate::seam::install(cfg.hash_seed, cfg.order_seed, cfg.cache_ad, cfg.cache_data);
    let _ = (Call::List { ext: String::new(), n: 0 }, WriteOutcome::Stored);
    Ok(())
}

// ------------------------------------------------------------------------------------ C17

fn c17(w: &mut World) -> Res {
    let mut stats = BTreeMap::new();
    let r = crate::backends::contract_run(&w.cfg.backend, w.cfg.seed, &mut stats);
    for (k, v) in stats {
        w.add(&k, v);
    }
    w.bump(&format!("probe.backend.{}", w.cfg.backend));
    if let Err(cv) = r {
        viol!(w, "adapter-contract", cv.class, "{}", cv.detail);
    }
    Ok(())
}

// ------------------------------------------------------------------------------------ C07

/// A world that has executed `ops` with the oracles of `prop` on.
fn fork_as(cfg: &RunCfg, prop: &str, ops: &[Op]) -> Option<World> {
    let mut c = cfg.clone();
    c.prop = prop.to_string();
    let mut w = World::new(c).ok()?;
    for op in ops {
        if w.exec(op).is_err() {
            return None;
        }
    }
    Some(w)
}

/// Every choosable leaf of the conflicted state a history ends in: fork once per (object, live
/// leaf), resolve in favour of it, commit, let the resolution propagate.
fn c07(w: &mut World, ops: &[Op]) -> Res {
    let cfg = w.cfg.clone();
    // the first replica that ends the history with something in conflict and nothing staged
    let mut target = None;
    for r in 0..w.replicas.len() {
        if w.replicas[r].time_travel || w.replicas[r].live.is_none() {
            continue;
        }
        let d = match w.digest_of(r) {
            Ok(d) => d,
            Err(_) => continue,
        };
        let conf: Vec<String> = d["in_conflict"].as_array().map(|a| a.iter().filter_map(|x| x.as_str().map(|s| s.to_string())).collect()).unwrap_or_default();
        if !conf.is_empty() {
            target = Some((r, conf, d));
            break;
        }
    }
    let (r, conf, d) = match target {
        Some(t) => t,
        None => return Ok(()),
    };
    w.bump("enum.c07_conflicted_end_states");
    for (i, uuid) in conf.iter().enumerate().take(3) {
        let nleaves = d["conflicts"].get(uuid).and_then(|c| c.as_array()).map_or(0, |a| a.len()) + 1;
        for j in 0..nleaves.min(5) {
            let mut wf = match fork_as(&cfg, &w.prop, ops) {
                Some(x) => x,
                None => return Ok(()),
            };
            wf.step = w.step;
            w.bump("enum.c07_leaf_forks");
            let steps = [Op::Resolve { r, obj_sel: i as u32, leaf_sel: j as u32 }, Op::Commit { r, info: None }, Op::Converge { commit: true }];
            for o in &steps {
                match wf.exec(o) {
                    Ok(()) => {}
                    Err(Stop::Violation(mut v)) => {
                        v.detail = format!("fork resolving {} in favour of its leaf #{} (of {}) on replica {}, then commit and exchange: {}", uuid, j, nleaves, r, v.detail);
                        return Err(Stop::Violation(v));
                    }
                    Err(Stop::Inconclusive(_)) => break,
                }
            }
        }
    }
    crate::seam::install(cfg.hash_seed, cfg.order_seed, cfg.cache_ad, cfg.cache_data);
    Ok(())
}

// ------------------------------------------------------------------------------------ C02

fn permutations(n: usize) -> Vec<Vec<usize>> {
    fn rec(cur: &mut Vec<usize>, used: &mut Vec<bool>, n: usize, out: &mut Vec<Vec<usize>>) {
        if cur.len() == n {
            out.push(cur.clone());
            return;
        }
        for i in 0..n {
            if !used[i] {
                used[i] = true;
                cur.push(i);
                rec(cur, used, n, out);
                cur.pop();
                used[i] = false;
            }
        }
    }
    let mut out = vec![];
    rec(&mut vec![], &mut vec![false; n], n, &mut out);
    out
}

/// Every prefix of every permutation: the newest k files of the richest store are delivered to a
/// replica that holds the rest, in all k! orders, with a refresh after each file.
fn c02(w: &mut World, _ops: &[Op]) -> Res {
    if cfg!(feature = "real") {
        return Ok(());
    }
    let thorough = std::env::var("VERIF_TIER").map_or(false, |t| t == "thorough");
    // a quarter of the quick runs, all thorough runs
    if !thorough && w.cfg.seed % 4 != 0 {
        return Ok(());
    }
    let cfg = w.cfg.clone();
    let disks = w.disks();
    let items = match disks.iter().max_by_key(|d| d.len()) {
        Some(d) if d.len() >= 3 => d.clone(),
        _ => return Ok(()),
    };
    // files that become visible before they are complete (a torn copy) and are completed later: the
    // refresh in between may fail or hold blocks back, the one after completion applies them
    {
        let truth = true_values(&items);
        let mut rng = Rng::derive(cfg.seed, 0xC02A);
        c10_walk(w, &cfg, &items, &truth, &mut rng, 0, true)?;
    }
    let st = RefState::from_items(&items);
    // the k late files: walk back from the heads (blocks with their packs)
    let k = if thorough { 5 } else { 4 };
    let mut late: Vec<String> = vec![];
    let mut blocks: Vec<&String> = st.complete.iter().collect();
    blocks.sort_by_key(|b| std::cmp::Reverse(st.blocks[*b].idx));
    for b in blocks {
        for key in std::iter::once(format!("{}.delta", b)).chain(st.blocks[b].packs.iter().map(|p| format!("{}.pack", p))) {
            if late.len() < k && items.contains_key(&key) && !late.contains(&key) {
                late.push(key);
            }
        }
    }
    if late.len() < 2 {
        return Ok(());
    }
    let base: Items = items.iter().filter(|(key, _)| !late.contains(key)).map(|(a, b)| (a.clone(), b.clone())).collect();
    w.bump("enum.c02_permutation_sets");
    for perm in permutations(late.len()) {
        let disk = DiskRef::from_items(base.clone(), cfg.list_seed ^ 0x2);
        let store = disk.store();
        let mut m = match guard(|| Melda::new(store).map_err(|e| e.to_string())) {
            Ok(Ok(m)) => m,
            _ => return Ok(()),
        };
        w.bump("enum.c02_permutations");
        for (n, pi) in perm.iter().enumerate() {
            let key = &late[*pi];
            disk.put(key, &items[key]);
            let what = format!("delivery order {:?}, after file {} of {} ({})", perm.iter().map(|i| &late[*i][..late[*i].len().min(14)]).collect::<Vec<_>>(), n + 1, late.len(), key);
            match guard(|| m.refresh().map_err(|e| e.to_string())) {
                Ok(Ok(())) => {}
                Ok(Err(e)) => viol!(w, "refresh-succeeds", "perm-refresh-err", "{}: refresh failed on undamaged storage: {}", what, e),
                Err(c) => viol!(w, "refresh-succeeds", format!("perm-refresh-{}", c.class()), "{}: refresh does not return: {}", what, c.text()),
            }
            w.bump("enum.c02_prefixes");
            let now = disk.items();
            let stn = RefState::from_items(&now);
            let applied: BTreeSet<String> = api::block_status(&m).into_iter().filter(|(_, s)| s == "applied").map(|(b, _)| b).collect();
            if applied != stn.complete {
                viol!(w, "applied-equals-complete", if applied.difference(&stn.complete).next().is_some() { "perm-applied-incomplete-block" } else { "perm-complete-block-held-back" },
                    "{}: applied {:?} but causally complete are {:?}", what, applied, stn.complete);
            }
            let d = match digest(&m) {
                Ok(d) => d,
                Err(c) => viol!(w, "refresh-succeeds", format!("perm-read-{}", c.class()), "{}: reading does not return: {}", what, c.text()),
            };
            let mut wx = World::new_empty(cfg.clone());
            wx.prop = w.prop.clone();
            wx.step = w.step;
            if let Err(Stop::Violation(mut v)) = wx.compare_with_ref(0, &d, &stn, "delivery") {
                v.class = format!("perm-{}", v.class);
                v.detail = format!("{}: {}", what, v.detail);
                return Err(Stop::Violation(v));
            }
        }
    }
    Ok(())
}

// ------------------------------------------------------------------------------------ C14

/// Every set of heads a replica ever had: at the end of the history each replica travels to each
/// of its checkpoints (reload_until and new_until) and back (reload).
fn c14(w: &mut World, ops: &[Op]) -> Res {
    let cfg = w.cfg.clone();
    for r in 0..w.replicas.len().min(3) {
        if w.replicas[r].live.is_none() {
            continue;
        }
        let staged = { let m = w.replicas[r].live.as_ref().unwrap(); guard(|| m.has_staging()).unwrap_or(true) };
        if staged {
            continue;
        }
        let n = w.replicas[r].checkpoints.len();
        // all of them when few, else the oldest, the newest and a seeded selection in between
        let mut picks: Vec<usize> = (0..n).collect();
        if n > 10 {
            let mut rng = Rng::derive(cfg.seed, 0xC14 + r as u64);
            rng.shuffle(&mut picks);
            picks.truncate(8);
            picks.push(0);
            picks.push(n - 1);
            picks.sort();
            picks.dedup();
        }
        for idx in picks {
            // no fork needed: a plain reload brings the replica back to the latest state
            w.bump("enum.c14_checkpoint_forks");
            if w.replicas[r].checkpoints[idx].heads.len() > 1 {
                w.bump("enum.c14_multihead_forks");
            }
            let heads = w.replicas[r].checkpoints[idx].heads.clone();
            for o in [Op::ReloadUntil { r, sel: idx as u32, of: r, extra: 0 }, Op::Reload { r }] {
                match w.exec(&o) {
                    Ok(()) => {}
                    Err(Stop::Violation(mut v)) => {
                        v.detail = format!("at the end of the history replica {} travels to its checkpoint #{} of {} ({:?}): {}", r, idx, n, heads, v.detail);
                        return Err(Stop::Violation(v));
                    }
                    Err(other) => return Err(other),
                }
            }
        }
    }
    // a walk through time without returning to the present in between: consecutive travels to head
    // sets in seeded order, those of other replicas (sibling branches) and requests with a redundant
    // ancestor included; each must show exactly the state of its target, whatever was shown before
    let nrep = w.replicas.len();
    for r in 0..nrep.min(3) {
        if w.replicas[r].live.is_none() {
            continue;
        }
        let staged = { let m = w.replicas[r].live.as_ref().unwrap(); guard(|| m.has_staging()).unwrap_or(true) };
        if staged {
            continue;
        }
        let mut rng = Rng::derive(cfg.seed, 0xC14A + r as u64);
        let mut targets: Vec<(usize, usize)> = (0..nrep).flat_map(|o| (0..w.replicas[o].checkpoints.len()).map(move |i| (o, i))).collect();
        rng.shuffle(&mut targets);
        targets.truncate(8);
        let mut walk: Vec<Op> = targets.iter().map(|(o, i)| Op::ReloadUntil { r, sel: *i as u32, of: *o, extra: if rng.chance(1, 4) { 1 + rng.below(100) as u32 } else { 0 } }).collect();
        walk.push(Op::Reload { r });
        for (k, o) in walk.iter().enumerate() {
            w.bump("enum.c14_walk_steps");
            match w.exec(o) {
                Ok(()) => {}
                Err(Stop::Violation(mut v)) => {
                    v.detail = format!("at the end of the history replica {} walks through {} head sets without reloading in between; step {} ({}): {}", r, walk.len() - 1, k + 1, o.brief(), v.detail);
                    return Err(Stop::Violation(v));
                }
                Err(other) => return Err(other),
            }
        }
    }
    let _ = ops;
    crate::seam::install(cfg.hash_seed, cfg.order_seed, cfg.cache_ad, cfg.cache_data);
    Ok(())
}
