//! Guarded access to the library: every public call is made under `catch_unwind`; a panic that
//! reaches the caller is outcome `Abort`, a lock-shim deadlock report is outcome `Hang`.
use melda::melda::{DeltaId, Melda};
use serde_json::{json, Map, Value};
use std::cell::RefCell;
use std::collections::{BTreeMap, BTreeSet};
use std::panic::{catch_unwind, AssertUnwindSafe};

thread_local! {
    static LAST_PANIC: RefCell<String> = const { RefCell::new(String::new()) };
}

pub fn install_panic_hook() {
    std::panic::set_hook(Box::new(|info| {
        let msg = if let Some(s) = info.payload().downcast_ref::<&str>() {
            s.to_string()
        } else if let Some(s) = info.payload().downcast_ref::<String>() {
            s.clone()
        } else {
            "<non-string panic>".to_string()
        };
        let loc = info.location().map(|l| format!("{}:{}", l.file(), l.line())).unwrap_or_default();
        if std::env::var("VERIF_DEBUG_BT").is_ok() && msg.contains("ExecutionState") {
            eprintln!("PANIC {} @ {}\n{}", msg, loc, std::backtrace::Backtrace::force_capture());
        }
        LAST_PANIC.with(|p| *p.borrow_mut() = format!("{} @ {}", msg, loc));
    }));
}

pub fn last_panic() -> String {
    LAST_PANIC.with(|p| p.borrow().clone())
}

#[derive(Clone, Debug, PartialEq)]
pub enum Crash {
    Abort(String),
    Hang(String),
}

impl Crash {
    pub fn class(&self) -> String {
        // stable signature: message without volatile payload, plus the panic site
        let (k, m) = match self {
            Crash::Abort(m) => ("abort", m),
            Crash::Hang(m) => ("hang", m),
        };
        let (msg, loc) = m.rsplit_once(" @ ").unwrap_or((m, ""));
        let head: String = msg.split(|c| c == ':' || c == '{' || c == '(').next().unwrap_or("").trim().chars().take(60).collect();
        let loc = loc.rsplit('/').next().unwrap_or(loc);
        format!("{}:{}@{}", k, head.replace(' ', "_"), loc)
    }
    pub fn text(&self) -> &str {
        match self {
            Crash::Abort(m) | Crash::Hang(m) => m,
        }
    }
}

pub fn guard<T>(f: impl FnOnce() -> T) -> Result<T, Crash> {
    match catch_unwind(AssertUnwindSafe(f)) {
        Ok(v) => Ok(v),
        Err(_) => {
            let m = LAST_PANIC.with(|p| p.borrow().clone());
            if m.contains("VERIF-DEADLOCK") || m.contains("deadlock") {
                Err(Crash::Hang(m))
            } else {
                Err(Crash::Abort(m))
            }
        }
    }
}

pub fn heads_of(m: &Melda) -> BTreeSet<String> {
    m.get_anchors().iter().map(|d| d.to_string()).collect()
}

pub fn delta_ids(h: &BTreeSet<String>) -> BTreeSet<DeltaId> {
    h.iter().filter_map(|s| DeltaId::from(s).ok()).collect()
}

pub fn read_doc(m: &Melda) -> Value {
    match m.read(None) {
        Ok(d) => json!({ "ok": Value::Object(d) }),
        Err(e) => json!({ "err": e.to_string() }),
    }
}

/// The observable state of a replica (DESIGN §2.3 `StateDigest`).
pub fn digest(m: &Melda) -> Result<Value, Crash> {
    guard(|| {
        let objects: Vec<String> = m.get_all_objects().into_iter().collect();
        let mut winners = Map::new();
        let mut conflicts = Map::new();
        for u in &objects {
            winners.insert(u.clone(), match m.get_winner(u) {
                Ok(w) => Value::from(w),
                Err(e) => json!({ "err": e.to_string() }),
            });
            match m.get_conflicting(u) {
                Ok(c) => {
                    if !c.is_empty() {
                        conflicts.insert(u.clone(), Value::from(c.into_iter().collect::<Vec<_>>()));
                    }
                }
                Err(e) => {
                    conflicts.insert(u.clone(), json!({ "err": e.to_string() }));
                }
            }
        }
        let in_conflict: Vec<String> = m.in_conflict().into_iter().collect();
        let heads: Vec<String> = heads_of(m).into_iter().collect();
        json!({
            "objects": objects, "winners": winners, "conflicts": conflicts, "in_conflict": in_conflict,
            "heads": heads, "doc": read_doc(m), "staging": m.has_staging(),
        })
    })
}

/// The digest without anything that contains block or pack names.
pub fn semantic(d: &Value) -> Value {
    let mut o = d.as_object().cloned().unwrap_or_default();
    o.remove("heads");
    Value::Object(o)
}

pub fn diff_digest(a: &Value, b: &Value) -> String {
    let (ao, bo) = (a.as_object(), b.as_object());
    if let (Some(ao), Some(bo)) = (ao, bo) {
        let keys: BTreeSet<&String> = ao.keys().chain(bo.keys()).collect();
        for k in keys {
            if ao.get(k) != bo.get(k) {
                let (x, y) = (ao.get(k).cloned().unwrap_or(Value::Null), bo.get(k).cloned().unwrap_or(Value::Null));
                if let (Some(xo), Some(yo)) = (x.as_object(), y.as_object()) {
                    let ks: BTreeSet<&String> = xo.keys().chain(yo.keys()).collect();
                    for kk in ks {
                        if xo.get(kk) != yo.get(kk) {
                            return format!("{}[{}]: {} vs {}", k, kk, trunc(&xo.get(kk).cloned().unwrap_or(Value::Null)), trunc(&yo.get(kk).cloned().unwrap_or(Value::Null)));
                        }
                    }
                }
                return format!("{}: {} vs {}", k, trunc(&x), trunc(&y));
            }
        }
    }
    "equal".to_string()
}

pub fn trunc(v: &Value) -> String {
    let s = v.to_string();
    if s.chars().count() > 400 {
        let t: String = s.chars().take(400).collect();
        format!("{}…", t)
    } else {
        s
    }
}

#[cfg(not(feature = "real"))]
pub fn block_status(m: &Melda) -> BTreeMap<String, String> {
    m.verif_block_status().into_iter().map(|(k, v)| (k, v.to_string())).collect()
}
#[cfg(feature = "real")]
pub fn block_status(_m: &Melda) -> BTreeMap<String, String> {
    BTreeMap::new()
}

#[cfg(not(feature = "real"))]
pub fn dump_tree(m: &Melda, uuid: &str) -> Option<Vec<(String, Option<String>, bool)>> {
    m.verif_dump_tree(uuid)
}
#[cfg(feature = "real")]
pub fn dump_tree(_m: &Melda, _uuid: &str) -> Option<Vec<(String, Option<String>, bool)>> {
    None
}

/// Canonical form of a `stage()` export: change records as a sorted list.
pub fn canon_stage(s: &Option<Value>) -> Value {
    match s {
        None => Value::Null,
        Some(v) => {
            let mut o = v.as_object().cloned().unwrap_or_default();
            if let Some(Value::Array(c)) = o.get("c") {
                let mut c: Vec<String> = c.iter().map(|x| x.to_string()).collect();
                c.sort();
                o.insert("c".to_string(), Value::from(c));
            }
            Value::Object(o)
        }
    }
}
