//! Tree-level checks through the cfg-guarded re-exports (hook 1): learn-order independence
//! of the winner rule (C05) and canonical revision identifiers (C19), evaluated on the
//! revision sets the simulated histories produce.
use crate::refstore::{self, rev_cmp, sha_hex, Rev};
use crate::rng::Rng;
use crate::world::{Res, Stop, Violation, World};
use std::collections::BTreeSet;

#[cfg(not(feature = "real"))]
use melda::verif::{Revision, RevisionTree};

macro_rules! viol {
    ($w:expr, $check:expr, $class:expr, $($arg:tt)*) => {
        return Err(Stop::Violation(Violation { prop: $w.prop.clone(), check: $check.to_string(), class: $class.to_string(), step: $w.step, detail: format!($($arg)*) }))
    };
}

#[cfg(feature = "real")]
pub fn permutation_check(_w: &mut World, _uuid: &str, _t: &[(String, Option<String>, bool)]) -> Res {
    Ok(())
}
#[cfg(feature = "real")]
pub fn synthetic_trees(_w: &mut World) -> Res {
    Ok(())
}
#[cfg(feature = "real")]
pub fn identifier_checks(_w: &mut World, _uuid: &str, _t: &[(String, Option<String>, bool)]) -> Res {
    Ok(())
}

/// Re-inserts the revision set into a fresh `RevisionTree` in seeded permutations; after every
/// prefix (parents may still be dangling) winner and leaves must equal the reference rule.
#[cfg(not(feature = "real"))]
pub fn permutation_check(w: &mut World, uuid: &str, t: &[(String, Option<String>, bool)]) -> Res {
    permutation_check_with(w, uuid, t, false)
}

/// "Any shape": revision sets no history of the library's own calls produces (but a foreign block or a
/// replayed stage may contain) — children of resolution markers and of deletions, several creation
/// revisions, parents that are never recorded, equal digests under different parents — built with the
/// identifier rule and learned in every order (up to 6 revisions), against the reference rule.
#[cfg(not(feature = "real"))]
pub fn synthetic_trees(w: &mut World) -> Res {
    let mut rng = Rng::derive(w.cfg.seed ^ ((w.step as u64) << 20), 0x5EED7);
    let pool: Vec<String> = (0..4).map(|i| sha_hex(format!("content{}", (w.cfg.seed as usize + i) % 9).as_bytes())).collect();
    for k in 0..2 {
        let n = 2 + rng.below(5);
        let mut t: Vec<(String, Option<String>, bool)> = vec![];
        for _ in 0..n {
            let digest: String = match rng.below(9) {
                0 | 1 => "d".to_string(),
                2 | 3 => "r".to_string(),
                4 => "1f600".to_string(),
                _ => rng.pick(&pool).clone(),
            };
            let entry = if t.is_empty() || rng.chance(1, 6) {
                if rng.chance(2, 3) {
                    (format!("1-{}", rng.pick(&pool)), None)
                } else {
                    // the parent is never recorded
                    let ghost = Rev::parse(&format!("1-{}", sha_hex(b"ghost"))).unwrap();
                    let g2 = if rng.chance(1, 2) { ghost.child(&pool[0]) } else { ghost };
                    (g2.child(&digest).text(), Some(g2.text()))
                }
            } else {
                let p = t[rng.below(t.len())].0.clone();
                (Rev::parse(&p).unwrap().child(&digest).text(), Some(p))
            };
            if !t.iter().any(|x| x.0 == entry.0) {
                t.push((entry.0, entry.1, false));
            }
        }
        w.bump("probe.tree_synthetic");
        if t.iter().any(|(_, p, _)| p.as_ref().map_or(false, |p| Rev::parse(p).map_or(false, |x| x.is_resolved()))) {
            w.bump("probe.tree_synthetic_child_of_marker");
        }
        permutation_check_with(w, &format!("synthetic-{}", k), &t, true)?;
    }
    Ok(())
}

#[cfg(not(feature = "real"))]
fn permutation_check_with(w: &mut World, uuid: &str, t: &[(String, Option<String>, bool)], force_all: bool) -> Res {
    if t.len() < 2 || t.len() > 40 {
        return Ok(());
    }
    let mut rng = Rng::derive(w.cfg.seed ^ w.step as u64, crate::rng::fnv64(uuid.as_bytes()));
    // small trees: every insertion order (at every third step); larger ones: reverse + seeded orders
    let exhaustive = (t.len() <= 5 && w.step % 3 == 0) || (force_all && t.len() <= 6);
    let all: Vec<Vec<usize>> = if exhaustive { all_orders(t.len()) } else { vec![] };
    if exhaustive {
        w.bump("probe.tree_all_orders");
    }
    let perms = if exhaustive { all.len() } else if t.len() <= 6 { 3 } else { 2 };
    for pi in 0..perms {
        let mut order: Vec<usize> = (0..t.len()).collect();
        if exhaustive {
            order = all[pi].clone();
        } else {
            match pi {
                0 => order.reverse(), // children before parents, typically
                _ => rng.shuffle(&mut order),
            }
        }
        let mut rt = RevisionTree::new();
        let mut prefix: refstore::Tree = refstore::Tree::new();
        for i in order {
            let (r, p, _) = &t[i];
            let rev = match Revision::from(r) {
                Ok(x) => x,
                Err(_) => continue,
            };
            let par = p.as_ref().and_then(|p| Revision::from(p).ok());
            rt.unvalidated_add(rev, par, false);
            rt.validate();
            prefix.insert(r.clone(), p.clone());
            let (leaves, win) = refstore::tree_rule(&prefix);
            let got_w = rt.get_winner().map(|x| x.to_string());
            let got_l: BTreeSet<String> = rt.get_leafs().iter().map(|x| x.to_string()).collect();
            let want_l: BTreeSet<String> = leaves.into_iter().collect();
            w.bump("probe.tree_prefix_checked");
            if prefix.values().any(|p| p.as_ref().map_or(false, |p| !prefix.contains_key(p))) {
                w.bump("probe.tree_prefix_dangling_parent");
            }
            if got_w != win || got_l != want_l {
                viol!(w, "learn-order-independence", "tree-prefix-rule", "object {}: after learning {:?} the tree reports winner {:?} leaves {:?}; the rule gives {:?} / {:?}", uuid, prefix, got_w, got_l, win, want_l);
            }
        }
    }
    Ok(())
}

#[cfg(not(feature = "real"))]
pub fn identifier_checks(w: &mut World, uuid: &str, t: &[(String, Option<String>, bool)]) -> Res {
    let mut revs: Vec<String> = vec![];
    for (r, p, _) in t {
        revs.push(r.clone());
        if let Some(p) = p {
            revs.push(p.clone());
        }
    }
    revs.sort();
    revs.dedup();
    // print / parse
    for s in &revs {
        let first = w.rev_seen.insert(s.clone());
        if !first {
            continue;
        }
        w.bump("probe.identifier_checked");
        let rv = match Revision::from(s) {
            Ok(x) => x,
            Err(e) => viol!(w, "print-parse", "id-unparsable", "identifier {} (object {}) does not parse: {}", s, uuid, e),
        };
        if &rv.to_string() != s {
            viol!(w, "print-parse", "id-roundtrip", "identifier {} parses and prints back as {}", s, rv);
        }
        match Rev::parse(s) {
            Some(mine) => {
                if mine.idx != rv.index() as u64 || &mine.digest != rv.digest() || &mine.text() != s {
                    viol!(w, "print-parse", "id-fields", "identifier {} parses to index {} digest {} (reference: {} {})", s, rv.index(), rv.digest(), mine.idx, mine.digest);
                }
                if mine.idx >= 10 {
                    w.bump("probe.identifier_index_ge_10");
                }
                if mine.idx >= 100 {
                    w.bump("probe.identifier_index_ge_100");
                }
            }
            None => viol!(w, "print-parse", "id-noncanonical", "identifier {} (object {}) is not of the canonical form", s, uuid),
        }
        if rv != rv.clone() || rv.cmp(&rv) != std::cmp::Ordering::Equal {
            viol!(w, "order", "id-not-reflexive", "identifier {} is not equal to itself", s);
        }
    }
    // construction rule: index = parent index + 1, tail = first 7 hex digits of sha256(parent text)
    for (r, p, _) in t {
        let rv = match Rev::parse(r) {
            Some(x) => x,
            None => continue,
        };
        match p {
            None => {
                if rv.idx != 1 || rv.tail.is_some() {
                    viol!(w, "identifier-function", "id-creation-form", "creation revision {} of {} is not of the form 1-<digest>", r, uuid);
                }
            }
            Some(p) => {
                let pv = match Rev::parse(p) {
                    Some(x) => x,
                    None => continue,
                };
                let want = pv.child(&rv.digest).text();
                if &want != r {
                    viol!(w, "identifier-function", "id-not-function-of-parent", "revision {} of {} with parent {} should be {}", r, uuid, p, want);
                }
            }
        }
    }
    // order: total, antisymmetric, transitive, consistent with equality and with the reference
    let parsed: Vec<(String, Revision)> = revs.iter().filter_map(|s| Revision::from(s).ok().map(|r| (s.clone(), r))).collect();
    let n = parsed.len();
    let mut rng = Rng::derive(w.cfg.seed ^ w.step as u64, crate::rng::fnv64(uuid.as_bytes()) ^ 0x19);
    let pairs: Vec<(usize, usize)> = if n <= 20 {
        (0..n).flat_map(|i| (0..n).map(move |j| (i, j))).collect()
    } else {
        (0..400).map(|_| (rng.below(n), rng.below(n))).collect()
    };
    for (i, j) in pairs {
        let (a, b) = (&parsed[i], &parsed[j]);
        let c = a.1.cmp(&b.1);
        w.bump("probe.order_pair_checked");
        if c != b.1.cmp(&a.1).reverse() {
            viol!(w, "order", "order-antisymmetry", "cmp({}, {}) = {:?} but cmp({}, {}) = {:?}", a.0, b.0, c, b.0, a.0, b.1.cmp(&a.1));
        }
        if (c == std::cmp::Ordering::Equal) != (a.1 == b.1) || (a.1 == b.1) != (a.0 == b.0) {
            viol!(w, "order", "order-equality", "cmp({}, {}) = {:?}, == is {}", a.0, b.0, c, a.1 == b.1);
        }
        if c != rev_cmp(&a.0, &b.0) {
            viol!(w, "order", "order-rule", "cmp({}, {}) = {:?} but the rule (markers lowest, index, then bytes) gives {:?}", a.0, b.0, c, rev_cmp(&a.0, &b.0));
        }
        if a.1 == b.1 {
            use std::hash::{Hash, Hasher};
            let (mut h1, mut h2) = (std::collections::hash_map::DefaultHasher::new(), std::collections::hash_map::DefaultHasher::new());
            a.1.hash(&mut h1);
            b.1.hash(&mut h2);
            if h1.finish() != h2.finish() {
                viol!(w, "order", "hash-equality", "{} == {} but their hashes differ", a.0, b.0);
            }
        }
    }
    let triples = if n <= 8 { n * n * n } else { 200 };
    for k in 0..triples {
        let (i, j, l) = if n <= 8 { (k / (n * n), (k / n) % n, k % n) } else { (rng.below(n), rng.below(n), rng.below(n)) };
        if n == 0 {
            break;
        }
        let (a, b, c) = (&parsed[i].1, &parsed[j].1, &parsed[l].1);
        w.bump("probe.order_triple_checked");
        if a <= b && b <= c && !(a <= c) {
            viol!(w, "order", "order-transitivity", "{} <= {} <= {} but not {} <= {}", parsed[i].0, parsed[j].0, parsed[l].0, parsed[i].0, parsed[l].0);
        }
    }
    Ok(())
}

/// C19 functional dependence across replicas and time: (content, parent) <-> identifier.
pub fn note_revision_content(w: &mut World, uuid: &str, rev: &str, parent: &Option<String>, content: &serde_json::Value) -> Res {
    let canon = content.to_string();
    // a deletion / resolution marker reads as {"_deleted":true} / {"_resolved":true}, which a user may
    // also store as ordinary content: the marker and the stored object are different contents
    let marker = Rev::parse(rev).map_or(false, |rv| rv.digest == "d" || rv.digest == "r" || rv.digest == "e");
    let key = (if marker { format!("marker:{}", canon) } else { canon.clone() }, parent.clone().unwrap_or_default());
    match w.rev_by_content.get(&key) {
        Some(old) if old != rev => {
            viol!(w, "identifier-function", "id-not-function-of-content", "the same content {} on the same parent {:?} has identifiers {} and {}", canon, parent, old, rev);
        }
        Some(_) => {}
        None => {
            w.rev_by_content.insert(key, rev.to_string());
        }
    }
    // digest rule: sha256 of the canonical JSON text (or a marker)
    if let Some(rv) = Rev::parse(rev) {
        let o = content.as_object();
        let expect = match o {
            Some(o) if o.is_empty() => "e".to_string(),
            Some(o) if o.contains_key("_deleted") && rv.digest == "d" => "d".to_string(),
            Some(o) if o.contains_key("_resolved") && rv.digest == "r" => "r".to_string(),
            Some(o) if o.contains_key("#") => return Ok(()),
            _ => sha_hex(canon.as_bytes()),
        };
        if expect != rv.digest {
            viol!(w, "identifier-function", "id-digest-not-content", "revision {} of {}: digest is not the SHA-256 of its content {} (expected {})", rev, uuid, canon, expect);
        }
        w.bump("probe.identifier_content_checked");
    }
    Ok(())
}

/// C16 via hook 1: `apply_diff_patch(old, make_diff_patch(old, new)) == new` for a successive
/// pair of array versions that a history produced.
#[cfg(not(feature = "real"))]
pub fn diff_patch_contract(w: &mut World, uuid: &str, old: &[String], new: &[String]) -> Res {
    use serde_json::Value;
    let o: Vec<Value> = old.iter().map(|s| Value::from(s.clone())).collect();
    let n: Vec<Value> = new.iter().map(|s| Value::from(s.clone())).collect();
    let r = crate::api::guard(|| {
        let patch = melda::verif::make_diff_patch(&o, &n).map_err(|e| e.to_string())?;
        let mut x = o.clone();
        melda::verif::apply_diff_patch(&mut x, &patch).map_err(|e| e.to_string())?;
        Ok::<(Vec<Value>, Vec<Value>), String>((x, patch))
    });
    w.bump("probe.diff_patch_pair_checked");
    match r {
        Ok(Ok((x, patch))) => {
            if x != n {
                viol!(w, "edit-script-roundtrip", "diff-patch-roundtrip", "array {}: applying make_diff_patch({:?}, {:?}) = {} to the old version gives {:?}", uuid, old, new, serde_json::Value::from(patch), x);
            }
            if o == n && !patch.is_empty() {
                viol!(w, "edit-script-roundtrip", "diff-patch-nonempty-for-equal", "array {}: equal versions {:?} give a non-empty edit script {}", uuid, old, serde_json::Value::from(patch));
            }
        }
        Ok(Err(e)) => viol!(w, "edit-script-roundtrip", "diff-patch-err", "array {}: edit script between {:?} and {:?} fails: {}", uuid, old, new, e),
        Err(c) => viol!(w, "edit-script-roundtrip", format!("diff-patch-{}", c.class()), "array {}: edit script between {:?} and {:?} aborts: {}", uuid, old, new, c.text()),
    }
    Ok(())
}
#[cfg(feature = "real")]
pub fn diff_patch_contract(_w: &mut World, _uuid: &str, _old: &[String], _new: &[String]) -> Res {
    Ok(())
}

/// C06 via hook 1: `merge_arrays` on a pair of duplicate-free orders that a history produced:
/// union, no duplicates, the base order is kept, and both orders are kept when they agree on
/// their common elements.
#[cfg(not(feature = "real"))]
pub fn merge_pair_contract(w: &mut World, uuid: &str, a: &[String], b: &[String]) -> Res {
    use serde_json::Value;
    let dup = |v: &[String]| v.iter().collect::<BTreeSet<_>>().len() != v.len();
    if dup(a) || dup(b) {
        return Ok(());
    }
    for (m, n) in [(a, b), (b, a)] {
        let mv: Vec<Value> = m.iter().map(|s| Value::from(s.clone())).collect();
        let mut nv: Vec<Value> = n.iter().map(|s| Value::from(s.clone())).collect();
        let r = crate::api::guard(|| {
            melda::verif::merge_arrays(&mv, &mut nv);
            nv
        });
        w.bump("probe.merge_pair_checked");
        let out: Vec<String> = match r {
            Ok(v) => v.iter().map(|x| x.as_str().unwrap_or("?").to_string()).collect(),
            Err(c) => viol!(w, "merge-pair", format!("merge-pair-{}", c.class()), "array {}: merge_arrays({:?}, {:?}) aborts: {}", uuid, m, n, c.text()),
        };
        let want: BTreeSet<&String> = m.iter().chain(n.iter()).collect();
        let got: BTreeSet<&String> = out.iter().collect();
        if got != want || out.len() != want.len() {
            viol!(w, "merge-pair", "merge-pair-set", "array {}: merge_arrays({:?}, {:?}) = {:?} is not the duplicate-free union", uuid, m, n, out);
        }
        let keeps = |o: &[String]| o.iter().filter(|e| out.contains(e)).collect::<Vec<_>>() == out.iter().filter(|e| o.contains(e)).collect::<Vec<_>>();
        if !keeps(n) {
            viol!(w, "merge-pair", "merge-pair-base-order", "array {}: merge_arrays({:?}, {:?}) = {:?} reorders the base", uuid, m, n, out);
        }
        let common_m: Vec<&String> = m.iter().filter(|e| n.contains(e)).collect();
        let common_n: Vec<&String> = n.iter().filter(|e| m.contains(e)).collect();
        if common_m == common_n && !keeps(m) {
            viol!(w, "merge-pair", "merge-pair-other-order", "array {}: merge_arrays({:?}, {:?}) = {:?} reorders the merged-in version although both agree on their common elements", uuid, m, n, out);
        }
    }
    Ok(())
}
#[cfg(feature = "real")]
pub fn merge_pair_contract(_w: &mut World, _uuid: &str, _a: &[String], _b: &[String]) -> Res {
    Ok(())
}

fn all_orders(n: usize) -> Vec<Vec<usize>> {
    fn rec(cur: &mut Vec<usize>, used: &mut Vec<bool>, n: usize, out: &mut Vec<Vec<usize>>) {
        if cur.len() == n {
            out.push(cur.clone());
            return;
        }
        for i in 0..n {
            if !used[i] {
                used[i] = true;
                cur.push(i);
                rec(cur, used, n, out);
                cur.pop();
                used[i] = false;
            }
        }
    }
    let mut out = vec![];
    rec(&mut vec![], &mut vec![false; n], n, &mut out);
    out
}
