//! C17: the real storage backends (memory, directory, SQLite file, SQLite in-memory, each
//! plain / Deflate / Brotli). Real code, real file I/O; the simulator supplies the op
//! generator, the reference model (first write wins) and reopen as the only fault.
use crate::api::{guard, Crash};
use crate::rng::Rng;
use melda::adapter::Adapter;
use std::collections::BTreeMap;

pub const BACKENDS: [&str; 12] = [
    "memory", "memory+flate", "memory+brotli", "dir", "dir+flate", "dir+brotli", "sqlite", "sqlite+flate", "sqlite+brotli", "sqlitemem", "sqlitemem+flate", "sqlitemem+brotli",
];

pub fn persistent(name: &str) -> bool {
    name.starts_with("dir") || (name.starts_with("sqlite") && !name.starts_with("sqlitemem"))
}

pub fn scratch_root() -> String {
    format!("{}/.work/backends.{}", crate::driver::verif_home(), std::process::id())
}

/// Opens (or re-opens) the named backend on `path` (directory or database file).
pub fn open(name: &str, path: &str) -> Result<Box<dyn Adapter>, Crash> {
    let (base, wrap) = name.split_once('+').unwrap_or((name, ""));
    let (base, wrap, path) = (base.to_string(), wrap.to_string(), path.to_string());
    guard(move || -> Box<dyn Adapter> {
        macro_rules! wrapped {
            ($inner:expr) => {
                match wrap.as_str() {
                    "flate" => Box::new(melda::flate2adapter::Flate2Adapter::new($inner)) as Box<dyn Adapter>,
                    "brotli" => Box::new(melda::brotliadapter::BrotliAdapter::new($inner)) as Box<dyn Adapter>,
                    _ => Box::new($inner) as Box<dyn Adapter>,
                }
            };
        }
        match base.as_str() {
            "memory" => wrapped!(melda::memoryadapter::MemoryAdapter::new()),
            "dir" => wrapped!(melda::filesystemadapter::FilesystemAdapter::new(&path).expect("cannot_open_directory_backend")),
            "sqlite" => wrapped!(melda::sqliteadapter::SqliteAdapter::new(&path)),
            _ => wrapped!(melda::sqliteadapter::SqliteAdapter::new_in_memory()),
        }
    })
}

#[derive(Debug)]
pub struct ContractViolation {
    pub class: String,
    pub detail: String,
}

fn key(rng: &mut Rng) -> String {
    let hexlen = *rng.pick(&[3usize, 8, 64]);
    let mut s = String::new();
    if rng.chance(1, 3) {
        s.push_str(&format!("{}-", rng.range(1, 120)));
    }
    for _ in 0..hexlen {
        s.push(*rng.pick(&['0', '1', '2', '3', '4', '5', '6', '7', '8', '9', 'a', 'b', 'c', 'd', 'e', 'f']));
    }
    s.push_str(*rng.pick(&[".delta", ".pack", ".pack", ".delta", ".idx", ".tmp", ".PACK", ".Delta", ".pac_", ".p%ck", ".pack2", ".flate", ".brotli", ".pack.flate"]));
    s
}

fn bytes(rng: &mut Rng) -> Vec<u8> {
    let n = match rng.below(10) {
        0 => 0,
        1 => 1,
        2 => rng.range(2, 16),
        3 => rng.range(100, 5000),
        4 => {
            if rng.chance(1, 6) {
                1 << 20
            } else {
                rng.range(5000, 70000)
            }
        }
        _ => rng.range(1, 300),
    };
    match rng.below(4) {
        0 => vec![0u8; n],
        1 => (0..n).map(|i| (i % 251) as u8).collect(),
        2 => (0..n).map(|_| rng.next() as u8).collect(),
        _ => format!("{{\"k\":\"{}\"}}", "x".repeat(n)).into_bytes(),
    }
}

/// Seeded write / read / ranged read / list / reopen sequence against the first-write-wins model.
pub fn contract_run(name: &str, seed: u64, stats: &mut BTreeMap<String, u64>) -> Result<(), ContractViolation> {
    let mut rng = Rng::derive(seed, 0xC17);
    let root = scratch_root();
    let path = format!("{}/c{}", root, seed);
    let _ = std::fs::create_dir_all(&root);
    let _ = std::fs::remove_dir_all(&path);
    let _ = std::fs::remove_file(&path);
    let bump = |stats: &mut BTreeMap<String, u64>, k: &str| *stats.entry(k.to_string()).or_insert(0) += 1;
    let cv = |class: &str, detail: String| ContractViolation { class: format!("{}:{}", class, name.split('+').last().filter(|_| class == "contract-wrapper").unwrap_or(name)), detail: format!("backend {}: {}", name, detail) };
    let mut a = open(name, &path).map_err(|c| cv("contract-open-abort", format!("constructing the backend does not return: {}", c.text())))?;
    // persistent backends: a second handle on the same storage (a file-synchronisation tool, another
    // process) through which a fifth of the writes go; the first handle must see them
    let second: Option<Box<dyn Adapter>> = if persistent(name) { Some(open(name, &path).map_err(|c| cv("contract-open-abort", format!("constructing a second handle on the same storage does not return: {}", c.text())))?) } else { None };
    let mut model: BTreeMap<String, Vec<u8>> = BTreeMap::new();
    let mut keys: Vec<String> = vec![];
    let mut refused: Vec<String> = vec![];
    let n = rng.range(10, 60);
    for _ in 0..n {
        let k = rng.below(100);
        if k < 35 || keys.is_empty() {
            // write (35% of those to an existing key, with other bytes)
            let mut key_ = if !keys.is_empty() && rng.chance(1, 3) { rng.pick(&keys).clone() } else { key(&mut rng) };
            if !keys.is_empty() && rng.chance(1, 3) && key_.len() > 8 {
                // same leading characters as an existing key (directory backends shard by them)
                let k0 = rng.pick(&keys).clone();
                if k0.len() >= 2 && k0.is_char_boundary(2) && key_.is_char_boundary(2) {
                    key_ = format!("{}{}", &k0[..2], &key_[2..]);
                }
            }
            if rng.chance(1, 20) && !model.contains_key(&key_) {
                // a key the directory backends cannot store (file name too long once shard directory and
                // wrapper suffix are added): the write may be refused, and must then leave no trace
                key_ = format!("{}{}", "f".repeat(rng.range(245, 256)), &key_[key_.len().saturating_sub(6)..]);
            }
            let data = bytes(&mut rng);
            bump(stats, "contract.write");
            if model.contains_key(&key_) {
                bump(stats, "contract.second_write");
            }
            let via_second = second.is_some() && rng.chance(1, 3);
            if via_second {
                bump(stats, "contract.write_via_second_handle");
            }
            let h: &dyn Adapter = if via_second { second.as_deref().unwrap() } else { a.as_ref() };
            let r = guard(|| h.write_object(&key_, &data)).map_err(|c| cv("contract-abort", format!("write_object({}, {} bytes) does not return: {}", key_, data.len(), c.text())))?;
            if let Err(e) = r {
                if key_.len() > 240 && !model.contains_key(&key_) {
                    bump(stats, "contract.write_refused");
                    refused.push(key_.clone());
                    continue;
                }
                return Err(cv("contract-write-err", format!("write_object({}, {} bytes) failed: {}", key_, data.len(), e)));
            }
            if !model.contains_key(&key_) {
                model.insert(key_.clone(), data);
                keys.push(key_);
            }
        } else if k < 55 {
            let key_ = if !refused.is_empty() && rng.chance(1, 10) { rng.pick(&refused).clone() } else if rng.chance(1, 8) { key(&mut rng) } else { rng.pick(&keys).clone() };
            bump(stats, "contract.read");
            let r = guard(|| a.read_object(&key_, 0, 0)).map_err(|c| cv("contract-abort", format!("read_object({}, 0, 0) does not return: {}", key_, c.text())))?;
            match (model.get(&key_), r) {
                (Some(m), Ok(d)) if *m == d => {}
                (None, Err(_)) => bump(stats, "contract.read_missing"),
                (m, r) => return Err(cv("contract-read", format!("read_object({}, 0, 0) = {:?} but the first write was {:?}", key_, r.map(|d| (d.len(), crate::refstore::sha_hex(&d)[..12].to_string())).map_err(|e| e.to_string()), m.map(|d| (d.len(), crate::refstore::sha_hex(d)[..12].to_string()))))),
            }
        } else if k < 75 {
            let key_ = rng.pick(&keys).clone();
            let m = &model[&key_];
            if m.is_empty() {
                continue;
            }
            // offsets and lengths biased towards block boundaries (4096 * k, powers of two, the ends)
            let off = if rng.chance(1, 3) {
                let mut c: Vec<usize> = vec![0, m.len() - 1];
                let mut b = 4096;
                while b < m.len() {
                    c.extend([b - 1, b, b + 1].into_iter().filter(|x| *x < m.len()));
                    b += 4096 * rng.range(1, 3);
                }
                *rng.pick(&c)
            } else {
                rng.below(m.len())
            };
            let len = if rng.chance(1, 4) { m.len() - off } else { rng.range(1, m.len() - off) };
            bump(stats, "contract.read_range");
            let r = guard(|| a.read_object(&key_, off, len)).map_err(|c| cv("contract-abort", format!("read_object({}, {}, {}) does not return: {}", key_, off, len, c.text())))?;
            match r {
                Ok(d) if d == m[off..off + len] => {}
                other => return Err(cv("contract-read-range", format!("read_object({}, {}, {}) of a {}-byte item = {:?}", key_, off, len, m.len(), other.map(|d| (d.len(), crate::refstore::sha_hex(&d)[..12].to_string())).map_err(|e| e.to_string())))),
            }
        } else if k < 92 {
            // fixed suffixes, and the tail of an existing key (any length) as suffix
            let tail: String = {
                let k0 = rng.pick(&keys).clone();
                let n = rng.range(1, k0.len().min(7));
                k0[k0.len() - n..].to_string()
            };
            let pool = ["", ".pack", ".delta", ".idx", ".none", ".PACK", "_", "ck", tail.as_str()];
            let ext = *rng.pick(&pool);
            bump(stats, "contract.list");
            let r = guard(|| a.list_objects(ext)).map_err(|c| cv("contract-abort", format!("list_objects({:?}) does not return: {}", ext, c.text())))?;
            let mut want: Vec<String> = model.keys().filter(|k| k.ends_with(ext)).map(|k| k[..k.len() - ext.len()].to_string()).collect();
            want.sort();
            match r {
                Ok(mut got) => {
                    got.sort();
                    if got != want {
                        let extra: Vec<&String> = got.iter().filter(|k| !want.contains(k)).take(3).collect();
                        let missing: Vec<&String> = want.iter().filter(|k| !got.contains(k)).take(3).collect();
                        return Err(cv("contract-list", format!("list_objects({:?}) returned {} names, expected {}; unexpected {:?}, missing {:?}", ext, got.len(), want.len(), extra, missing)));
                    }
                }
                Err(e) => return Err(cv("contract-list", format!("list_objects({:?}) failed: {}", ext, e))),
            }
        } else if persistent(name) {
            bump(stats, "fault.backend_reopen");
            drop(a);
            a = open(name, &path).map_err(|c| cv("contract-reopen-abort", format!("re-opening the backend on existing storage does not return: {}", c.text())))?;
        }
    }
    drop(a);
    drop(second);
    let _ = std::fs::remove_dir_all(&path);
    let _ = std::fs::remove_file(&path);
    Ok(())
}
