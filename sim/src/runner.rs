//! Running, replaying and shrinking single runs.
use crate::gen;
use crate::ops::Op;
use crate::world::{RunCfg, Stop, Violation, World};
use serde_json::{json, Value};
use std::collections::{BTreeMap, BTreeSet};

pub struct RunResult {
    pub cfg: RunCfg,
    pub ops: Vec<Op>,
    pub violation: Option<Violation>,
    pub inconclusive: Option<String>,
    pub stats: BTreeMap<String, u64>,
    pub states: BTreeSet<u64>,
    pub trace_hash: u64,
    pub steps: usize,
    pub final_digest_hash: u64,
}

fn finish(w: &mut World, cfg: RunCfg, ops: Vec<Op>, stop: Option<Stop>) -> RunResult {
    // fold the fault counters of the disks into the stats
    let mut stats = w.stats.take();
    for r in &w.replicas {
        let f = r.disk.with(|d| d.fired.clone());
        *stats.entry("fault.write_err".into()).or_insert(0) += f.write_err;
        *stats.entry("fault.disk_full".into()).or_insert(0) += f.disk_full;
        *stats.entry("fault.read_err".into()).or_insert(0) += f.read_err;
        *stats.entry("fault.list_permuted".into()).or_insert(0) += f.list_permuted;
        *stats.entry("fault.crash_snapshot".into()).or_insert(0) += f.crash_snapshots;
    }
    *stats.entry("seam.par_loops_permuted".into()).or_insert(0) += crate::seam::loops_permuted();
    let mut fd = 0u64;
    *stats.entry("seam.par_loops_on_workers".into()).or_insert(0) += crate::sched::loops_on_workers();
    for i in 0..w.replicas.len() {
        if w.replicas[i].live.is_some() && (stop.is_none() || !cfg!(feature = "sched")) {
            if let Ok(d) = crate::api::digest(w.replicas[i].live.as_ref().unwrap()) {
                fd = fd.rotate_left(7) ^ crate::rng::fnv64(d.to_string().as_bytes());
            }
        }
        let items = w.replicas[i].disk.items();
        for (k, v) in items {
            fd = fd.rotate_left(3) ^ crate::rng::fnv64(k.as_bytes()) ^ crate::rng::fnv64(&v);
        }
    }
    for r in &w.replicas {
        *stats.entry("probe.backend_calls".into()).or_insert(0) += r.disk.with(|d| d.backend_calls);
    }
    w.cleanup();
    let (violation, inconclusive) = match stop {
        Some(Stop::Violation(v)) => (Some(v), None),
        Some(Stop::Inconclusive(s)) => (None, Some(s)),
        None => (None, None),
    };
    RunResult { cfg, ops, violation, inconclusive, stats, states: std::mem::take(&mut w.states), trace_hash: w.trace_hash, steps: w.step, final_digest_hash: fd }
}

/// Generates and executes one run; the recorded ops are concrete.
pub fn generate(prop: &str, run_seed: u64) -> RunResult {
    if cfg!(feature = "sched") {
        let (cfg, _) = gen::make_cfg(prop, run_seed);
        let log: std::sync::Arc<std::sync::Mutex<Vec<Op>>> = std::sync::Arc::new(std::sync::Mutex::new(vec![]));
        let (log2, prop2) = (log.clone(), prop.to_string());
        let r = crate::sched::in_shuttle(sched_seed(&cfg), cfg.pool, move || generate_inner(&prop2, run_seed, Some(log2.clone())));
        return post_outside(wrap_sched(r, cfg, log));
    }
    generate_inner(prop, run_seed, None)
}

/// sched flavour: the checks over the recorded history run outside the run's own shuttle
/// execution (each re-execution they make is an execution of its own).
fn post_outside(mut r: RunResult) -> RunResult {
    if r.violation.is_some() || r.inconclusive.is_some() {
        return r;
    }
    let mut w0 = World::new_empty(r.cfg.clone());
    w0.step = r.steps;
    let res = crate::post::after_run(&mut w0, &r.ops);
    for (k, v) in w0.stats.take() {
        *r.stats.entry(k).or_insert(0) += v;
    }
    match res {
        Err(Stop::Violation(v)) => r.violation = Some(v),
        Err(Stop::Inconclusive(s)) => r.inconclusive = Some(s),
        Ok(()) => {}
    }
    r
}

pub fn sched_seed(cfg: &RunCfg) -> u64 {
    cfg.seed ^ cfg.order_seed.rotate_left(13)
}

/// The runner itself failed (deadlock, step overrun, panic on a simulated worker): turn it into a
/// result whose violation names the op that was executing.
fn wrap_sched(r: Result<RunResult, crate::api::Crash>, cfg: RunCfg, log: std::sync::Arc<std::sync::Mutex<Vec<Op>>>) -> RunResult {
    match r {
        Ok(r) => r,
        Err(c) => {
            let ops = log.lock().unwrap().clone();
            let step = crate::sched::CURRENT_STEP.load(std::sync::atomic::Ordering::SeqCst);
            let opname = ops.get(step.saturating_sub(1)).map(|o| o.name()).unwrap_or("?");
            let mut w0 = World::new_empty(cfg.clone());
            let stop = if cfg.prop == "C08" {
                Stop::Violation(Violation { prop: cfg.prop.clone(), check: "returns".into(), class: format!("{}:{}", c.class().split('@').next().unwrap_or("hang"), opname), step, detail: format!("{} (op #{}) did not return under simulated pool size {}: {}", opname, step, cfg.pool, c.text()) })
            } else {
                Stop::Inconclusive(format!("{}:{} [{}]", c.class(), opname, c.text()))
            };
            finish(&mut w0, cfg, ops, Some(stop))
        }
    }
}

/// Process-death journal (C08): when set, every generated op is appended to this file *before* it is executed,
/// so that a run which kills its process (stack overflow, abort) leaves the history that led there.
pub static JOURNAL: std::sync::Mutex<Option<std::fs::File>> = std::sync::Mutex::new(None);

fn journal(line: &Value) {
    use std::io::Write;
    if let Ok(mut g) = JOURNAL.lock() {
        if let Some(f) = g.as_mut() {
            let _ = writeln!(f, "{}", line);
            let _ = f.flush();
        }
    }
}

fn generate_inner(prop: &str, run_seed: u64, log: Option<std::sync::Arc<std::sync::Mutex<Vec<Op>>>>) -> RunResult {
    let (cfg, mut g) = gen::make_cfg(prop, run_seed);
    journal(&cfg.to_json());
    let mut w = match World::new(cfg.clone()) {
        Ok(w) => w,
        Err(s) => {
            let mut w0 = World::new_empty(cfg.clone());
            return finish(&mut w0, cfg, vec![], Some(s));
        }
    };
    let mut ops: Vec<Op> = vec![];
    let mut stop = None;
    'outer: loop {
        let (batch, pre) = g.next(&w);
        if batch.is_empty() {
            break;
        }
        for (bi, op) in batch.into_iter().enumerate() {
            ops.push(op.clone());
            journal(&op.to_json());
            if let Some(l) = &log {
                l.lock().unwrap().push(op.clone());
            }
            if bi < pre {
                // already performed by the generator: account for it, do not read twice
                w.account(&op);
                if let Some((ci, c)) = &g.peek_crash {
                    if *ci == bi {
                        let api = match &op {
                            Op::Read { what: 1, .. } => "has_staging",
                            Op::Read { what: 2, .. } => "in_conflict",
                            _ => "read",
                        };
                        stop = Some(w.crash(api, c.clone()));
                        break 'outer;
                    }
                }
                continue;
            }
            if let Err(s) = w.exec(&op) {
                stop = Some(s);
                break 'outer;
            }
            if ops.len() > 600 {
                break 'outer;
            }
        }
    }
    if stop.is_none() && !cfg!(feature = "sched") {
        if let Err(s) = crate::post::after_run(&mut w, &ops) {
            stop = Some(s);
        }
    }
    finish(&mut w, cfg, ops, stop)
}

/// Executes a recorded op list (replay, shrinking candidates).
pub fn replay(cfg: &RunCfg, ops: &[Op]) -> RunResult {
    if cfg!(feature = "sched") {
        let log = std::sync::Arc::new(std::sync::Mutex::new(ops.to_vec()));
        let (c2, o2) = (cfg.clone(), ops.to_vec());
        let r = crate::sched::in_shuttle(sched_seed(cfg), cfg.pool, move || replay_inner(&c2, &o2));
        return post_outside(wrap_sched(r, cfg.clone(), log));
    }
    replay_inner(cfg, ops)
}

fn replay_inner(cfg: &RunCfg, ops: &[Op]) -> RunResult {
    let mut w = match World::new(cfg.clone()) {
        Ok(w) => w,
        Err(s) => {
            let mut w0 = World::new_empty(cfg.clone());
            return finish(&mut w0, cfg.clone(), ops.to_vec(), Some(s));
        }
    };
    let mut stop = None;
    for op in ops {
        if let Err(s) = w.exec(op) {
            stop = Some(s);
            break;
        }
    }
    if stop.is_none() && !cfg!(feature = "sched") {
        if let Err(s) = crate::post::after_run(&mut w, ops) {
            stop = Some(s);
        }
    }
    finish(&mut w, cfg.clone(), ops.to_vec(), stop)
}

/// Delta debugging on the op list, keeping candidates that fail with the same violation class.
pub fn shrink(cfg: &RunCfg, ops: &[Op], class: &str, budget: usize) -> (RunCfg, Vec<Op>, usize) {
    let mut best: Vec<Op> = ops.to_vec();
    let mut cfg = cfg.clone();
    let mut tried = 0usize;
    let fails = |cfg: &RunCfg, cand: &[Op], tried: &mut usize| -> bool {
        *tried += 1;
        replay(cfg, cand).violation.map_or(false, |v| v.class == class)
    };
    // cut the tail after the failing step first
    let r0 = replay(&cfg, &best);
    if let Some(v) = &r0.violation {
        if v.class == class && v.step < best.len() && v.step > 0 {
            let cand = best[..v.step].to_vec();
            if fails(&cfg, &cand, &mut tried) {
                best = cand;
            }
        }
    }
    let mut chunk = (best.len() / 2).max(1);
    while chunk >= 1 && tried < budget {
        let mut i = 0;
        let mut progress = false;
        while i < best.len() && tried < budget {
            let end = (i + chunk).min(best.len());
            let mut cand = best[..i].to_vec();
            cand.extend_from_slice(&best[end..]);
            if !cand.is_empty() && fails(&cfg, &cand, &mut tried) {
                best = cand;
                progress = true;
            } else {
                i += chunk;
            }
        }
        if chunk == 1 && !progress {
            break;
        }
        if !progress {
            chunk /= 2;
        }
        if chunk == 0 {
            break;
        }
    }
    // drop unused trailing replicas
    let used = best.iter().map(|o| max_replica(o)).max().unwrap_or(0) + 1;
    if used < cfg.n_replicas && used >= 1 {
        let mut c2 = cfg.clone();
        c2.n_replicas = used.max(1);
        if tried < budget && fails(&c2, &best, &mut tried) {
            cfg = c2;
        }
    }
    // simplify: commit infos -> None, `twice` -> false
    for i in 0..best.len() {
        if tried >= budget {
            break;
        }
        let simpler = match &best[i] {
            Op::Commit { r, info: Some(_) } => Some(Op::Commit { r: *r, info: None }),
            Op::Update { r, doc, twice: true } => Some(Op::Update { r: *r, doc: doc.clone(), twice: false }),
            Op::Send { from, to, sel, delay, dup, drop } if *delay > 0 || *dup || *drop => Some(Op::Send { from: *from, to: *to, sel: *sel, delay: 0, dup: false, drop: *drop }),
            _ => None,
        };
        if let Some(s) = simpler {
            let mut cand = best.clone();
            cand[i] = s;
            if fails(&cfg, &cand, &mut tried) {
                best = cand;
            }
        }
    }
    // simplify documents: drop keys of submitted documents one at a time
    for i in 0..best.len() {
        if let Op::Update { r, doc, twice } = best[i].clone() {
            if let Some(o) = doc.as_object() {
                for k in o.keys().cloned().collect::<Vec<_>>() {
                    if tried >= budget {
                        break;
                    }
                    let cur = match &best[i] {
                        Op::Update { doc, .. } => doc.clone(),
                        _ => break,
                    };
                    let mut d2 = cur.clone();
                    d2.as_object_mut().unwrap().remove(&k);
                    let mut cand = best.clone();
                    cand[i] = Op::Update { r, doc: d2, twice };
                    if fails(&cfg, &cand, &mut tried) {
                        best = cand;
                    }
                }
            }
        }
    }
    (cfg, best, tried)
}

fn max_replica(o: &Op) -> usize {
    match o {
        Op::Meld { r, from } | Op::StageForeign { r, from } => *r.max(from),
        Op::SameEdit { a, b, .. } => *a.max(b),
        Op::Send { from, to, .. } | Op::SendAll { from, to } => *from.max(to),
        other => other.replica().unwrap_or(0),
    }
}

pub fn replay_file_json(cfg: &RunCfg, ops: &[Op], v: &Violation, fault_trace: &BTreeMap<String, u64>, extra: Value) -> Value {
    json!({
        "property": v.prop,
        "check": v.check,
        "seed": cfg.seed,
        "run_config": cfg.to_json(),
        "ops": ops.iter().map(|o| o.to_json()).collect::<Vec<_>>(),
        "fault_trace": fault_trace.iter().filter(|(k, _)| k.starts_with("fault.")).map(|(k, v)| (k.clone(), json!(v))).collect::<serde_json::Map<String, Value>>(),
        "violation": v.to_json(),
        "extra": extra,
    })
}

pub fn load_replay(path: &str) -> Result<(RunCfg, Vec<Op>, Value), String> {
    let s = std::fs::read_to_string(path).map_err(|e| format!("{}: {}", path, e))?;
    let v: Value = serde_json::from_str(&s).map_err(|e| format!("{}: {}", path, e))?;
    let cfg = RunCfg::from_json(v.get("run_config").ok_or("missing run_config")?)?;
    let ops: Result<Vec<Op>, String> = v.get("ops").and_then(|o| o.as_array()).ok_or("missing ops")?.iter().map(Op::from_json).collect();
    Ok((cfg, ops?, v))
}
