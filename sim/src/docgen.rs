//! Document family and mutations (DESIGN §2.2). Documents obey C04's well-formedness clause:
//! every element of a flattened array is an object with a document-unique string `_id` that
//! does not start with '^'; no '#' key; the root carries no `_id`.
use crate::refstore::FLAT;
use crate::rng::Rng;
use serde_json::{json, Map, Value};
use std::collections::BTreeSet;

pub const ARRAY_KEYS: [&str; 2] = ["items\u{266D}", "tags\u{266D}"];
pub const SUB_KEY: &str = "sub\u{266D}";
pub const META_KEY: &str = "meta\u{266D}";
pub const SCALAR_FLAT_KEY: &str = "s\u{266D}";

#[derive(Clone, Debug)]
pub struct DocCfg {
    pub id_pool: usize,  // 6..=10
    pub nasty: bool,     // use the nasty value pool
    pub floats: bool,    // include non-integer numbers
    pub max_elems: usize,
    pub kinds: bool,     // flattened keys may disappear / change kind
    pub nested: bool,    // nested sub arrays and meta objects
    pub bang_ids: bool,  // identifiers starting with '!' (legal per C04)
    pub root_ids: bool,  // the root object may carry its own `_id` (and change it)
    /// some array elements are characters: objects whose whole content is the reserved field `#`
    /// with a character code of up to 8 hexadecimal digits, which the library stores in the revision
    /// identifier itself (outside C04's document family, inside every other property's)
    pub chars: bool,
    /// identified single objects nested inside identified single objects, whose containment edits may
    /// invert (concurrently inverted on two replicas the per-object winners refer to each other)
    pub chain: bool,
}

impl DocCfg {
    pub fn default_for(rng: &mut Rng) -> DocCfg {
        DocCfg {
            id_pool: rng.range(6, 10),
            nasty: rng.chance(2, 3),
            floats: rng.chance(1, 2),
            max_elems: rng.range(3, 7),
            kinds: rng.chance(1, 2),
            nested: rng.chance(1, 2),
            bang_ids: false,
            root_ids: false,
            chars: false,
            chain: false,
        }
    }
}

const NASTY_STR: [&str; 30] = [
    "", "a", "b", "{", "}", "a{b", "}{", "{\"k\":1}", "\"", "\\", "a\"b\\c", "[", "]", "!", "!!x", "^", "^x@y",
    "@", "\u{266D}", "x\u{266D}", "\u{221A}", "\u{e9}", "\u{65e5}\u{672c}", "\u{1F600}", "\n", "\t\r", "\u{0}",
    "1-abc_def", "d", "e",
];
const PLAIN_STR: [&str; 8] = ["a", "b", "c", "alpha", "beta", "x y", "hello", "z"];
const FIELD_KEYS: [&str; 8] = ["v", "name", "k", "_x", "a b", "{", "\"q\"", "\u{e9}"];

pub fn id_name(i: usize, cfg: &DocCfg) -> String {
    let base = ["a", "b", "c", "d", "e", "f", "g", "h", "i", "j"][i % 10];
    if i >= 10 {
        // large documents: a7, b7, ... (the first ten names keep their special shapes)
        return format!("{}{}", base, i / 10);
    }
    if cfg.bang_ids && i % 4 == 3 {
        format!("!{}", base)
    } else if cfg.nasty && i % 5 == 4 {
        format!("{}@{{\"x", base)
    } else {
        base.to_string()
    }
}

pub fn scalar(rng: &mut Rng, cfg: &DocCfg) -> Value {
    let k = rng.below(if cfg.nasty { 10 } else { 6 });
    match k {
        0 => Value::Null,
        1 => Value::Bool(rng.chance(1, 2)),
        2 => Value::from(rng.below(5) as i64),
        3 | 4 => Value::from(*rng.pick(&PLAIN_STR)),
        5 => {
            if cfg.floats {
                float(rng)
            } else {
                Value::from(rng.below(100) as i64 - 50)
            }
        }
        6 | 7 => Value::from(*rng.pick(&NASTY_STR)),
        8 => match rng.below(5) {
            0 => Value::from(i64::MIN),
            1 => Value::from(i64::MAX),
            2 => Value::from(u64::MAX),
            3 => Value::from(-1i64),
            _ => Value::from(1u64 << 53),
        },
        _ => {
            if cfg.floats {
                float(rng)
            } else {
                Value::from(*rng.pick(&NASTY_STR))
            }
        }
    }
}

pub fn float(rng: &mut Rng) -> Value {
    let f = match rng.below(12) {
        0 => 0.5,
        1 => 0.1 + 0.2,
        2 => 1e300,
        3 => f64::MAX,
        4 => 5e-324,
        5 => -0.0,
        6 => 123456789.12345679,
        7 => 1.0 / 3.0,
        8 => 2.2250738585072014e-308,
        _ => loop {
            let x = f64::from_bits(rng.next());
            if x.is_finite() {
                break x;
            }
        },
    };
    json!(f)
}

pub fn value(rng: &mut Rng, cfg: &DocCfg, depth: usize) -> Value {
    if depth >= 2 || !rng.chance(1, 4) {
        return scalar(rng, cfg);
    }
    if rng.chance(1, 2) {
        let n = rng.below(4);
        Value::Array((0..n).map(|_| value(rng, cfg, depth + 1)).collect())
    } else {
        // a plain (non-flattened) container: may contain `_id` and flatten-looking keys, which
        // must come back verbatim
        let mut m = Map::new();
        let n = rng.below(3);
        for _ in 0..n {
            m.insert(rng.pick(&FIELD_KEYS).to_string(), value(rng, cfg, depth + 1));
        }
        if cfg.nasty && rng.chance(1, 3) {
            m.insert("_id".to_string(), Value::from("zz"));
        }
        if cfg.nasty && rng.chance(1, 3) {
            m.insert(format!("q{}", FLAT), json!([{"_id": "a"}, "!x", "^y"]));
        }
        Value::Object(m)
    }
}

fn fields(rng: &mut Rng, cfg: &DocCfg) -> Map<String, Value> {
    let mut m = Map::new();
    let n = rng.below(3);
    for _ in 0..n {
        m.insert(rng.pick(&FIELD_KEYS).to_string(), value(rng, cfg, 0));
    }
    if cfg.nasty && rng.chance(1, 10) {
        // user content that looks like the library's own markers (a soft-delete flag, ...)
        m.insert(rng.pick(&["_deleted", "_resolved"]).to_string(), Value::Bool(rng.chance(3, 4)));
    }
    m
}

const CHAR_CODES: [&str; 8] = ["6f", "41", "0", "1f600", "ffffffff", "e9", "0041", "20"];

fn new_elem(rng: &mut Rng, cfg: &DocCfg, id: &str) -> Value {
    if cfg.chars && rng.chance(1, 3) {
        return json!({"_id": id, "#": *rng.pick(&CHAR_CODES)});
    }
    let mut m = fields(rng, cfg);
    m.insert("_id".to_string(), Value::from(id));
    Value::Object(m)
}

/// All `_id`s of tracked objects (those reachable through flattened keys).
pub fn tracked_ids(doc: &Value) -> Vec<String> {
    fn walk_obj(o: &Map<String, Value>, out: &mut Vec<String>) {
        if let Some(Value::String(s)) = o.get("_id") {
            out.push(s.clone());
        }
        for (k, v) in o {
            if k.ends_with(FLAT) {
                walk_flat(v, out);
            }
        }
    }
    fn walk_flat(v: &Value, out: &mut Vec<String>) {
        match v {
            Value::Object(o) => walk_obj(o, out),
            Value::Array(a) => a.iter().for_each(|x| walk_flat(x, out)),
            _ => {}
        }
    }
    let mut out = vec![];
    if let Some(o) = doc.as_object() {
        for (k, v) in o {
            if k.ends_with(FLAT) {
                walk_flat(v, &mut out);
            }
        }
    }
    out
}

fn free_id(rng: &mut Rng, cfg: &DocCfg, doc: &Value) -> Option<String> {
    let used: BTreeSet<String> = tracked_ids(doc).into_iter().collect();
    let free: Vec<String> = (0..cfg.id_pool).map(|i| id_name(i, cfg)).filter(|i| !used.contains(i)).collect();
    if free.is_empty() {
        None
    } else {
        Some(rng.pick(&free).clone())
    }
}

pub fn initial(rng: &mut Rng, cfg: &DocCfg) -> Value {
    let mut root = Map::new();
    root.insert("title".to_string(), scalar(rng, cfg));
    if rng.chance(1, 2) {
        root.insert("n".to_string(), scalar(rng, cfg));
    }
    let mut doc = Value::Object(root);
    let key = ARRAY_KEYS[0];
    doc.as_object_mut().unwrap().insert(key.to_string(), json!([]));
    // large documents start with most of their elements in place
    let n = if cfg.max_elems > 20 { rng.range(cfg.max_elems * 2 / 3, cfg.max_elems - 4) } else { rng.range(1, 4.min(cfg.max_elems)) };
    for _ in 0..n {
        if let Some(id) = free_id(rng, cfg, &doc) {
            let e = new_elem(rng, cfg, &id);
            doc[key].as_array_mut().unwrap().push(e);
        }
    }
    if rng.chance(1, 3) {
        doc.as_object_mut().unwrap().insert(ARRAY_KEYS[1].to_string(), json!([]));
    }
    doc
}

/// One random edit; returns a short label for traces.
/// A character is its code and nothing else: whatever an edit added to one is taken away again.
fn normalize_chars(v: &mut Value) {
    match v {
        Value::Object(o) => {
            if o.contains_key("#") {
                o.retain(|k, _| k == "#" || k == "_id");
            }
            for (k, x) in o.iter_mut() {
                if k.ends_with(FLAT) {
                    normalize_chars(x);
                }
            }
        }
        Value::Array(a) => a.iter_mut().for_each(normalize_chars),
        _ => {}
    }
}

pub fn mutate(rng: &mut Rng, cfg: &DocCfg, doc: &mut Value) -> &'static str {
    for _ in 0..8 {
        if let Some(l) = try_mutate(rng, cfg, doc) {
            if cfg.chars {
                normalize_chars(doc);
            }
            return l;
        }
    }
    doc.as_object_mut().unwrap().insert("title".to_string(), Value::from(rng.below(1000) as u64));
    "title"
}

fn arrays_in<'a>(doc: &'a mut Value) -> Vec<&'a mut Vec<Value>> {
    // top-level flattened arrays and nested sub arrays (one level)
    let mut out: Vec<&'a mut Vec<Value>> = vec![];
    if let Some(o) = doc.as_object_mut() {
        for (k, v) in o.iter_mut() {
            if k.ends_with(FLAT) {
                if let Value::Array(a) = v {
                    out.push(a);
                }
            }
        }
    }
    out
}

fn try_mutate(rng: &mut Rng, cfg: &DocCfg, doc: &mut Value) -> Option<&'static str> {
    if cfg.root_ids && rng.chance(1, 6) {
        // the document is re-rooted: another root identifier, or back to the default root
        let o = doc.as_object_mut()?;
        if rng.chance(1, 3) {
            o.remove("_id");
        } else {
            o.insert("_id".to_string(), Value::from(*rng.pick(&["myroot", "r2", crate::refstore::ROOT])));
        }
        return Some("root-id");
    }
    let w = [8u32, 10, 8, 6, 6, 8, 5, 3, 3, 4, 4, 3, 3, if cfg.chain { 12 } else { 0 }];
    match rng.weighted(&w) {
        13 => {
            // identified single objects that contain each other: built, edited, containment inverted
            let fresh = free_id(rng, cfg, doc);
            let f = fields(rng, cfg);
            let o = doc.as_object_mut()?;
            let has_outer = o.get(META_KEY).map_or(false, |m| m.get("_id").map_or(false, |i| i.is_string()));
            if !has_outer {
                let mut f = f;
                f.insert("_id".to_string(), Value::from(fresh?));
                o.insert(META_KEY.to_string(), Value::Object(f));
                return Some("chain-outer");
            }
            let outer = o.get_mut(META_KEY)?.as_object_mut()?;
            let has_inner = outer.get(META_KEY).map_or(false, |m| m.get("_id").map_or(false, |i| i.is_string()));
            if !has_inner {
                let mut f = f;
                f.insert("_id".to_string(), Value::from(fresh?));
                outer.insert(META_KEY.to_string(), Value::Object(f));
                return Some("chain-inner");
            }
            match rng.below(5) {
                0 | 1 => {
                    // the contained object becomes the container
                    let mut inner = outer.remove(META_KEY)?.as_object()?.clone();
                    let old_outer = outer.clone();
                    inner.remove(META_KEY);
                    inner.insert(META_KEY.to_string(), Value::Object(old_outer));
                    o.insert(META_KEY.to_string(), Value::Object(inner));
                    Some("chain-invert")
                }
                2 => {
                    let k = *rng.pick(&FIELD_KEYS);
                    outer.insert(k.to_string(), scalar(rng, cfg));
                    Some("chain-edit-outer")
                }
                3 => {
                    let k = *rng.pick(&FIELD_KEYS);
                    outer.get_mut(META_KEY)?.as_object_mut()?.insert(k.to_string(), scalar(rng, cfg));
                    Some("chain-edit-inner")
                }
                _ => {
                    outer.remove(META_KEY);
                    Some("chain-cut")
                }
            }
        }
        0 => {
            // edit a root scalar
            let key = *rng.pick(&["title", "n", "plain"]);
            let v = if key == "plain" { value(rng, cfg, 0) } else { scalar(rng, cfg) };
            if rng.chance(1, 6) {
                doc.as_object_mut()?.remove(key);
            } else {
                doc.as_object_mut()?.insert(key.to_string(), v);
            }
            Some("root-field")
        }
        1 => {
            // insert a new element into some top-level array
            let id = free_id(rng, cfg, doc)?;
            let e = new_elem(rng, cfg, &id);
            let mut arrs = arrays_in(doc);
            if arrs.is_empty() {
                return None;
            }
            let i = rng.below(arrs.len());
            let a = &mut arrs[i];
            if a.len() >= cfg.max_elems {
                return None;
            }
            let pos = rng.below(a.len() + 1);
            a.insert(pos, e);
            Some("insert")
        }
        2 => {
            let mut arrs = arrays_in(doc);
            arrs.retain(|a| !a.is_empty());
            if arrs.is_empty() {
                return None;
            }
            let i = rng.below(arrs.len());
            let a = &mut arrs[i];
            let pos = rng.below(a.len());
            a.remove(pos);
            Some("remove")
        }
        3 => {
            let mut arrs = arrays_in(doc);
            arrs.retain(|a| a.len() >= 2);
            if arrs.is_empty() {
                return None;
            }
            let i = rng.below(arrs.len());
            let a = &mut arrs[i];
            let from = rng.below(a.len());
            let e = a.remove(from);
            let to = rng.below(a.len() + 1);
            a.insert(to, e);
            Some("move")
        }
        4 => {
            let mut arrs = arrays_in(doc);
            arrs.retain(|a| a.len() >= 2);
            if arrs.is_empty() {
                return None;
            }
            let i = rng.below(arrs.len());
            let a = &mut arrs[i];
            match rng.below(3) {
                0 => a.reverse(),
                1 => a.rotate_left(1),
                _ => {
                    let (x, y) = (rng.below(a.len()), rng.below(a.len()));
                    a.swap(x, y);
                }
            }
            Some("reorder")
        }
        5 => {
            // edit a field of an element
            let f = *rng.pick(&FIELD_KEYS);
            let v = value(rng, cfg, 0);
            let del = rng.chance(1, 5);
            let mut arrs = arrays_in(doc);
            arrs.retain(|a| !a.is_empty());
            if arrs.is_empty() {
                return None;
            }
            let i = rng.below(arrs.len());
            let a = &mut arrs[i];
            let pos = rng.below(a.len());
            let o = a[pos].as_object_mut()?;
            if o.contains_key("#") {
                // a character changes into another character, or into an ordinary object
                if rng.chance(1, 4) {
                    o.remove("#");
                    o.insert(f.to_string(), v);
                } else {
                    o.insert("#".to_string(), Value::from(*rng.pick(&CHAR_CODES)));
                }
                return Some("edit-char");
            }
            if rng.chance(1, 8) {
                // reduced to its identifier: the stored content becomes the empty object
                o.retain(|k, _| k == "_id");
                return Some("empty-elem");
            }
            if del {
                o.remove(f);
            } else {
                o.insert(f.to_string(), v);
            }
            Some("edit-elem")
        }
        6 => {
            // move an element to the other top-level array
            let o = doc.as_object_mut()?;
            let (src, dst) = if rng.chance(1, 2) { (ARRAY_KEYS[0], ARRAY_KEYS[1]) } else { (ARRAY_KEYS[1], ARRAY_KEYS[0]) };
            if !o.get(src).map_or(false, |v| v.as_array().map_or(false, |a| !a.is_empty())) {
                return None;
            }
            if !o.get(dst).map_or(true, |v| v.is_array()) {
                return None;
            }
            let sa = o.get_mut(src)?.as_array_mut()?;
            let pos = rng.below(sa.len());
            let e = sa.remove(pos);
            let d = o.entry(dst.to_string()).or_insert_with(|| json!([]));
            let da = d.as_array_mut()?;
            let to = rng.below(da.len() + 1);
            da.insert(to, e);
            Some("move-across")
        }
        7 => {
            // empty or refill an array
            let key = *rng.pick(&ARRAY_KEYS);
            let o = doc.as_object_mut()?;
            match o.get_mut(key) {
                Some(Value::Array(a)) => {
                    a.clear();
                    Some("clear")
                }
                None => {
                    o.insert(key.to_string(), json!([]));
                    Some("new-array")
                }
                _ => None,
            }
        }
        8 => {
            if !cfg.kinds {
                return None;
            }
            // flattened key disappears / reappears / changes kind
            let key = *rng.pick(&ARRAY_KEYS);
            let o = doc.as_object_mut()?;
            match rng.below(4) {
                0 => {
                    o.remove(key)?;
                    Some("key-gone")
                }
                1 => {
                    o.insert(key.to_string(), json!([]));
                    Some("key-empty-array")
                }
                2 => {
                    let s = scalar(rng, cfg);
                    o.insert(key.to_string(), s);
                    Some("key-scalar")
                }
                _ => {
                    let f = fields(rng, cfg);
                    o.insert(key.to_string(), Value::Object(f));
                    Some("key-object")
                }
            }
        }
        9 => {
            if !cfg.nested {
                return None;
            }
            // single flattened object without identifier
            let o = doc.as_object_mut()?;
            if rng.chance(1, 4) {
                o.remove(META_KEY)?;
                Some("meta-gone")
            } else {
                let mut f = fields(rng, cfg);
                // sometimes the single flattened object carries its own identifier
                if rng.chance(1, 3) {
                    let keep = o.get(META_KEY).and_then(|m| m.get("_id")).and_then(|x| x.as_str()).map(|s| s.to_string());
                    let id = match keep {
                        Some(k) if rng.chance(2, 3) => Some(k),
                        _ => {
                            let mut without = Value::Object(o.clone());
                            without.as_object_mut().unwrap().remove(META_KEY);
                            free_id(rng, cfg, &without)
                        }
                    };
                    if let Some(id) = id {
                        f.insert("_id".to_string(), Value::from(id));
                    }
                }
                o.insert(META_KEY.to_string(), Value::Object(f));
                Some("meta-set")
            }
        }
        10 => {
            if !cfg.nested {
                return None;
            }
            // nested flattened array inside an element
            let id = free_id(rng, cfg, doc)?;
            let e = new_elem(rng, cfg, &id);
            let o = doc.as_object_mut()?;
            let a = o.get_mut(ARRAY_KEYS[0])?.as_array_mut()?;
            if a.is_empty() {
                return None;
            }
            let pos = rng.below(a.len());
            let el = a[pos].as_object_mut()?;
            let sub = el.entry(SUB_KEY.to_string()).or_insert_with(|| json!([]));
            let sa = sub.as_array_mut()?;
            if sa.len() >= 3 || rng.chance(1, 4) {
                if sa.is_empty() {
                    return None;
                }
                let p = rng.below(sa.len());
                sa.remove(p);
                Some("sub-remove")
            } else {
                let p = rng.below(sa.len() + 1);
                sa.insert(p, e);
                Some("sub-insert")
            }
        }
        11 => {
            // flattened scalar
            let o = doc.as_object_mut()?;
            if rng.chance(1, 4) {
                o.remove(SCALAR_FLAT_KEY)?;
                Some("flat-scalar-gone")
            } else {
                let s = scalar(rng, cfg);
                o.insert(SCALAR_FLAT_KEY.to_string(), s);
                Some("flat-scalar")
            }
        }
        _ => {
            if !cfg.nested {
                return None;
            }
            // meta object on an element
            let f = fields(rng, cfg);
            let o = doc.as_object_mut()?;
            let a = o.get_mut(ARRAY_KEYS[0])?.as_array_mut()?;
            if a.is_empty() {
                return None;
            }
            let pos = rng.below(a.len());
            let el = a[pos].as_object_mut()?;
            if rng.chance(1, 3) {
                el.remove(META_KEY)?;
                Some("elem-meta-gone")
            } else {
                el.insert(META_KEY.to_string(), Value::Object(f));
                Some("elem-meta")
            }
        }
    }
}

/// Compares a submitted document with what `read` returned, modulo the `_id` field on tracked
/// objects that were submitted without one (which must then be present, as a string).
pub fn same_modulo_ids(sub: &Value, got: &Value) -> Result<(), String> {
    fn tracked(sub: &Map<String, Value>, got: &Map<String, Value>, path: &str) -> Result<(), String> {
        match (sub.get("_id"), got.get("_id")) {
            (Some(a), Some(b)) => {
                if a != b {
                    return Err(format!("{}: _id {} != {}", path, a, b));
                }
            }
            (None, Some(Value::String(_))) => {}
            (None, Some(x)) => return Err(format!("{}: _id not a string: {}", path, x)),
            (_, None) => return Err(format!("{}: no _id on tracked object", path)),
        }
        let ks: BTreeSet<&String> = sub.keys().filter(|k| *k != "_id").collect();
        let kg: BTreeSet<&String> = got.keys().filter(|k| *k != "_id").collect();
        if ks != kg {
            return Err(format!("{}: keys differ: submitted {:?} read {:?}", path, ks, kg));
        }
        for k in ks {
            let p = format!("{}/{}", path, k);
            if k.ends_with(FLAT) {
                flat(&sub[k], &got[k], &p)?;
            } else if sub[k] != got[k] {
                return Err(format!("{}: value differs: submitted {} read {}", p, sub[k], got[k]));
            }
        }
        Ok(())
    }
    fn flat(s: &Value, g: &Value, path: &str) -> Result<(), String> {
        match (s, g) {
            (Value::Object(a), Value::Object(b)) => tracked(a, b, path),
            (Value::Array(a), Value::Array(b)) => {
                if a.len() != b.len() {
                    return Err(format!("{}: array length {} != {} (submitted {} read {})", path, a.len(), b.len(), s, g));
                }
                for (i, (x, y)) in a.iter().zip(b.iter()).enumerate() {
                    flat(x, y, &format!("{}[{}]", path, i))?;
                }
                Ok(())
            }
            _ => {
                if s == g {
                    Ok(())
                } else {
                    Err(format!("{}: flattened value differs: submitted {} read {}", path, s, g))
                }
            }
        }
    }
    match (sub.as_object(), got.as_object()) {
        (Some(a), Some(b)) => tracked(a, b, ""),
        _ => Err("not objects".into()),
    }
}

/// The submitted document with the identifier libmelda documents for tracked objects that
/// carry none: the root is "\u{221A}", any other is the SHA-256 of the concatenated path
/// (identifiers and flattened keys from the root down).
pub fn with_ids(doc: &Value) -> Value {
    fn obj(o: &Map<String, Value>, path: &[String]) -> Value {
        let id = match o.get("_id") {
            Some(Value::String(s)) => s.clone(),
            _ if path.is_empty() => crate::refstore::ROOT.to_string(),
            _ => crate::refstore::sha_hex(path.join("").as_bytes()),
        };
        let mut fpath = path.to_vec();
        fpath.push(id.clone());
        let mut out = Map::new();
        out.insert("_id".to_string(), Value::from(id));
        for (k, v) in o {
            if k == "_id" {
                continue;
            }
            if k.ends_with(FLAT) {
                let mut p = fpath.clone();
                p.push(k.clone());
                out.insert(k.clone(), flat(v, &p));
            } else {
                out.insert(k.clone(), v.clone());
            }
        }
        Value::Object(out)
    }
    fn flat(v: &Value, path: &[String]) -> Value {
        match v {
            Value::Object(o) => obj(o, path),
            Value::Array(a) => Value::Array(a.iter().map(|x| flat(x, path)).collect()),
            other => other.clone(),
        }
    }
    match doc.as_object() {
        Some(o) => obj(o, &[]),
        None => doc.clone(),
    }
}

/// Tracked objects of a document (with identifiers, see `with_ids`) by identifier, reduced to
/// their non-flattened fields and flattened non-container values. Err on a duplicate id.
pub fn tracked_objects(doc: &Value) -> Result<std::collections::BTreeMap<String, Map<String, Value>>, String> {
    type Out = std::collections::BTreeMap<String, Map<String, Value>>;
    fn add(o: &Map<String, Value>, out: &mut Out) -> Result<(), String> {
        let id = match o.get("_id") {
            Some(Value::String(s)) => s.clone(),
            other => return Err(format!("tracked object without string _id: {:?}", other)),
        };
        let plain: Map<String, Value> = o
            .iter()
            // flattened keys are left out altogether: while an array is in conflict an object that the
            // user moved from that array into a single flattened position may still be claimed by the
            // array (membership "may still reflect the pending merge"), leaving null at the new place
            .filter(|(k, _)| *k != "_id" && !k.ends_with(FLAT))
            .map(|(k, v)| (k.clone(), v.clone()))
            .collect();
        if out.insert(id.clone(), plain).is_some() {
            return Err(format!("object {} appears more than once", id));
        }
        for (k, v) in o {
            if k.ends_with(FLAT) {
                walk(v, out)?;
            }
        }
        Ok(())
    }
    fn walk(v: &Value, out: &mut Out) -> Result<(), String> {
        match v {
            Value::Object(o) => add(o, out),
            Value::Array(a) => {
                for x in a {
                    walk(x, out)?;
                }
                Ok(())
            }
            _ => Ok(()),
        }
    }
    let mut out = Out::new();
    add(doc.as_object().ok_or("not an object")?, &mut out)?;
    Ok(out)
}

/// True when the document holds a flattened *single* object (not an array element) whose
/// identifier starts with '!' — the input shape of known finding F15.
pub fn has_bang_single_object(doc: &Value) -> bool {
    fn obj(o: &Map<String, Value>) -> bool {
        o.iter().any(|(k, v)| k.ends_with(FLAT) && flat(v, true))
    }
    fn flat(v: &Value, single: bool) -> bool {
        match v {
            Value::Object(o) => (single && o.get("_id").and_then(|x| x.as_str()).map_or(false, |s| s.starts_with('!'))) || obj(o),
            Value::Array(a) => a.iter().any(|x| flat(x, false)),
            _ => false,
        }
    }
    doc.as_object().map_or(false, obj)
}

/// The same document after a trip through JSON text in which every non-integer number is spelled
/// differently (exponent form, or a trailing zero): the parsed value must be the same.
pub fn respelled(doc: &Value) -> Value {
    fn emit(v: &Value, out: &mut String) {
        match v {
            Value::Number(n) if n.is_f64() => {
                let f = n.as_f64().unwrap();
                let plain = serde_json::to_string(v).unwrap();
                let alt = if plain.contains('e') || plain.contains('E') {
                    plain.replace('e', "E")
                } else if plain.contains('.') {
                    format!("{}0", plain)
                } else {
                    plain.clone()
                };
                // only keep the alternative when it denotes the same double
                if alt.parse::<f64>().ok() == Some(f) && (f != 0.0 || alt.starts_with('-') == f.is_sign_negative()) {
                    out.push_str(&alt)
                } else {
                    out.push_str(&plain)
                }
            }
            Value::Array(a) => {
                out.push('[');
                for (i, x) in a.iter().enumerate() {
                    if i > 0 {
                        out.push(',');
                    }
                    emit(x, out);
                }
                out.push(']');
            }
            Value::Object(o) => {
                out.push('{');
                for (i, (k, x)) in o.iter().enumerate() {
                    if i > 0 {
                        out.push(',');
                    }
                    out.push_str(&serde_json::to_string(k).unwrap());
                    out.push(':');
                    emit(x, out);
                }
                out.push('}');
            }
            other => out.push_str(&serde_json::to_string(other).unwrap()),
        }
    }
    let mut text = String::new();
    emit(doc, &mut text);
    serde_json::from_str(&text).unwrap_or_else(|_| doc.clone())
}

/// Equality of JSON values by what they denote (numbers by numeric value, not by spelling).
pub fn same_json_value(a: &Value, b: &Value) -> bool {
    match (a, b) {
        (Value::Number(x), Value::Number(y)) => {
            if let (Some(i), Some(j)) = (x.as_i64(), y.as_i64()) {
                i == j
            } else if let (Some(i), Some(j)) = (x.as_u64(), y.as_u64()) {
                i == j
            } else {
                match (x.as_f64(), y.as_f64()) {
                    (Some(f), Some(g)) => f == g && f.is_sign_negative() == g.is_sign_negative(),
                    _ => false,
                }
            }
        }
        (Value::Array(x), Value::Array(y)) => x.len() == y.len() && x.iter().zip(y.iter()).all(|(p, q)| same_json_value(p, q)),
        (Value::Object(x), Value::Object(y)) => x.len() == y.len() && x.iter().all(|(k, p)| y.get(k).map_or(false, |q| same_json_value(p, q))),
        _ => a == b,
    }
}
