//! Workload generation: per-property profiles (op mix, fault kinds, sizes) and the generator
//! that turns PRNG draws into *concrete* ops against the current world (swarm style: every run
//! draws its own mix, sizes and enabled fault kinds).
use crate::docgen::{self, DocCfg};
use crate::ops::Op;
use crate::refstore::ROOT;
use crate::rng::Rng;
use crate::world::{RunCfg, World};
use serde_json::{json, Value};

#[derive(Clone, Copy, Debug, PartialEq, Eq)]
#[repr(usize)]
pub enum K {
    Update = 0,
    Commit,
    Meld,
    Refresh,
    Reload,
    ReloadUntil,
    Resolve,
    Unstage,
    RoundTrip,
    Snapshot,
    ObjOp,
    Send,
    SendAll,
    Tick,
    Partition,
    Heal,
    Restart,
    FailWrites,
    DiskFull,
    Read,
    Exchange, // macro: r melds from x and refreshes
    EditCommit, // macro: update then commit
    Diverge, // macro: two replicas edit and commit concurrently, then one learns the other's work
    Trickle, // macro: every item a replica lacks is delivered one file at a time, refresh after each
    Echo, // macro: a replica that holds another's packs (but not its blocks) commits the same content, then a third learns its blocks only
    StageSave,
    StageRestore,
    FailRedo, // macro: a commit fails at a chosen write; the user discards (or exports and replays) the stage, redoes the same edit, commits, restarts
    TravelRedo, // macro: a pack-less commit, time travel to its parents, the identical change committed again
    Rounds, // macro: several rounds of "everyone edits and commits, then everyone exchanges with everyone" (blocks with 3+ parents)
    Burst, // macro: a long run of successive small edits of the same objects (revision indices >= 10, >= 100)
    SameEdit,
    Resubmit, // macro: a document submitted, other work staged and exported and discarded, the same document submitted again, the export replayed, the same document submitted once more (it must be what is read)
    SnapConflict, // macro: a full snapshot taken while an array is in conflict, committed; a peer that has not seen it extends the old winner; the snapshot taker learns that edit
    PastStage, // macro: staged edits exported and discarded, time travel to an older head set, the export replayed and committed there (a block whose records build on revisions of a block that is not its ancestor), travel to the new heads, reload
    StaleStage, // macro: staged edits exported and discarded; a concurrent committed edit of the same objects arrives and is refreshed in; the export is replayed onto the moved-on state, then discarded again or committed
    Twins, // macro: the same content reached over two edits on one replica and one edit on another (equal-content leaves with different identifiers), resolved independently and differently on both, exchanged, edited again
    N,
}

#[derive(Clone, Debug)]
pub struct Profile {
    pub name: &'static str,
    pub replicas: (usize, usize),
    pub len: (usize, usize),
    pub w: [u32; K::N as usize],
    pub common_base: u32,  // percent of runs starting from a shared committed base
    pub converge_end: u32, // percent of runs ending with Converge
    pub write_faults: bool,
    pub net_faults: bool,
    pub small_caches: bool,
    pub long_chains: bool,
    /// staged work is also replayed on *other* replicas (cross-replica `replay_stage`)
    pub foreign_stage: bool,
}

fn base_weights() -> [u32; K::N as usize] {
    let mut w = [0u32; K::N as usize];
    w[K::Update as usize] = 20;
    w[K::Commit as usize] = 12;
    w[K::EditCommit as usize] = 14;
    w[K::Meld as usize] = 6;
    w[K::Refresh as usize] = 8;
    w[K::Exchange as usize] = 12;
    w[K::Reload as usize] = 2;
    w[K::Resolve as usize] = 4;
    w[K::Unstage as usize] = 2;
    w[K::RoundTrip as usize] = 1;
    w[K::Snapshot as usize] = 2;
    w[K::Send as usize] = 8;
    w[K::SendAll as usize] = 2;
    w[K::Tick as usize] = 4;
    w[K::Restart as usize] = 2;
    w[K::Read as usize] = 1;
    w[K::Diverge as usize] = 8;
    w
}

pub fn profile_for(prop: &str, variant: u64) -> Profile {
    let mut p = Profile {
        name: "general",
        replicas: (2, 4),
        len: (8, 40),
        w: base_weights(),
        common_base: 80,
        converge_end: 50,
        write_faults: false,
        net_faults: true,
        small_caches: true,
        long_chains: false,
        foreign_stage: false,
    };
    let w = &mut p.w;
    match prop {
        "C01" => {
            p.name = "convergence";
            w[K::Echo as usize] = 2;
            w[K::Trickle as usize] = 6;
            w[K::SameEdit as usize] = 2;
            w[K::Twins as usize] = 1;
            w[K::PastStage as usize] = 1;
            w[K::TravelRedo as usize] = 1;
            w[K::Partition as usize] = 2;
            w[K::Heal as usize] = 2;
            w[K::ReloadUntil as usize] = 5;
            w[K::Send as usize] = 14;
            p.converge_end = 90;
        }
        "C02" => {
            p.name = "causal-delivery";
            p.replicas = (2, 4);
            w[K::Echo as usize] = 8;
            w[K::Trickle as usize] = 30;
            w[K::Diverge as usize] = 16;
            w[K::EditCommit as usize] = 24;
            w[K::Send as usize] = 10;
            w[K::Tick as usize] = 8;
            w[K::Refresh as usize] = 20;
            w[K::Meld as usize] = 2;
            w[K::Exchange as usize] = 3;
            // incremental refreshes also follow a time travel (blocks left ready-but-unapplied)
            w[K::ReloadUntil as usize] = 4;
            w[K::TravelRedo as usize] = 3;
            w[K::PastStage as usize] = 4;
            p.converge_end = 30;
            if variant % 5 == 0 {
                // commits that fail at a storage write, are given up (unstage) and redone on the same instance:
                // what the live replica shows afterwards must still be complete in its storage
                p.name = "causal-delivery-write-faults";
                w[K::FailRedo as usize] = 8;
                w[K::FailWrites as usize] = 6;
                w[K::Unstage as usize] = 5;
            }
        }
        "C03" => {
            p.name = "commit-durability";
            p.replicas = (1, 3);
            w[K::Update as usize] = 30;
            w[K::ObjOp as usize] = 4;
            w[K::Send as usize] = 2;
            w[K::Partition as usize] = 0;
            p.net_faults = false;
            p.common_base = 50;
            p.converge_end = 10;
            if variant % 5 == 0 {
                // commits that fail at a storage write, are given up or retried: whatever commit
                // finally reports success must be durable
                p.name = "commit-durability-write-faults";
                w[K::FailRedo as usize] = 8;
                w[K::FailWrites as usize] = 6;
                w[K::Unstage as usize] = 6;
            }
        }
        "C04" => {
            p.name = "read-after-update";
            p.replicas = (1, 3);
            w[K::StageSave as usize] = 3;
            w[K::StageRestore as usize] = 4;
            w[K::Update as usize] = 40;
            w[K::EditCommit as usize] = 10;
            w[K::Read as usize] = 2;
            w[K::Burst as usize] = 2;
            w[K::Resubmit as usize] = 5;
            p.converge_end = 5;
        }
        "C05" | "C19" => {
            p.name = if prop == "C05" { "winner-rule" } else { "identifiers" };
            w[K::Burst as usize] = 2;
            w[K::Twins as usize] = 2;
            w[K::StageSave as usize] = 3;
            w[K::StageRestore as usize] = 4;
            w[K::Unstage as usize] = 5;
            w[K::StaleStage as usize] = 3;
            if prop == "C05" {
                w[K::PastStage as usize] = 3;
                w[K::TravelRedo as usize] = 2;
                w[K::ReloadUntil as usize] = 2;
            }
            if prop == "C19" {
                w[K::RoundTrip as usize] = 5;
                w[K::SameEdit as usize] = 8;
            }
            w[K::Diverge as usize] = 16;
            w[K::Update as usize] = 30;
            w[K::Resolve as usize] = 8;
            w[K::ObjOp as usize] = 4;
            p.long_chains = variant % 3 == 0;
            p.len = (8, 60);
        }
        "C06" => {
            p.name = "array-merge";
            w[K::Diverge as usize] = 30;
            w[K::Resolve as usize] = 1;
            w[K::Exchange as usize] = 16;
            p.replicas = (2, 4);
            if variant % 3 == 1 {
                // concurrent versions also arrive as replayed stage exports of other replicas
                p.name = "array-merge-foreign-stages";
                p.foreign_stage = true;
                w[K::StageSave as usize] = 2;
                w[K::StageRestore as usize] = 8;
                w[K::RoundTrip as usize] = 5;
                w[K::Read as usize] = 6;
            }
        }
        "C07" => {
            p.name = "resolution";
            w[K::Diverge as usize] = 30;
            w[K::Resolve as usize] = 14;
            w[K::Exchange as usize] = 16;
            w[K::Twins as usize] = 5;
            p.converge_end = 80;
        }
        "C08" => {
            p.name = "returns";
            w[K::Read as usize] = 6;
            w[K::Twins as usize] = 2;
            w[K::Burst as usize] = 1;
            w[K::StaleStage as usize] = 2;
            w[K::PastStage as usize] = 2;
            w[K::Restart as usize] = 4;
            w[K::TravelRedo as usize] = 3;
            w[K::StageSave as usize] = 2;
            w[K::StageRestore as usize] = 3;
            w[K::Diverge as usize] = 20;
            w[K::Resolve as usize] = 8;
            w[K::Snapshot as usize] = 5;
            w[K::Unstage as usize] = 4;
            w[K::RoundTrip as usize] = 3;
            w[K::ObjOp as usize] = 4;
            w[K::ReloadUntil as usize] = 3;
            w[K::Reload as usize] = 4;
            w[K::Exchange as usize] = 16;
            if variant % 4 == 0 {
                // the same instance keeps being used after failed writes (state left behind by error paths)
                p.name = "returns-write-faults";
                w[K::FailRedo as usize] = 8;
                w[K::FailWrites as usize] = 8;
                w[K::DiskFull as usize] = 1;
            }
        }
        "C09" | "C15f" => {
            p.name = "write-faults";
            p.replicas = if variant % 3 == 0 { (1, 3) } else { (2, 3) };
            p.write_faults = true;
            // interrupted operations leave orphan packs and partial copies behind; what happens
            // *after* them (unstage, other edits, partial delivery to peers) is part of the property
            w[K::Trickle as usize] = 10;
            w[K::Echo as usize] = 12;
            w[K::FailRedo as usize] = 12;
            w[K::Unstage as usize] = 6;
            w[K::RoundTrip as usize] = 3;
            w[K::FailWrites as usize] = 8;
            w[K::DiskFull as usize] = 2;
            w[K::Restart as usize] = 4;
            p.len = (6, 24);
            p.converge_end = 20;
        }
        "C10" => {
            p.name = "damage-histories";
            // stores whose blocks depend on packs outside their own ancestry (Echo) and on items
            // that arrived file by file (Trickle) make deletions and damage bite in more ways
            w[K::Echo as usize] = 10;
            w[K::Trickle as usize] = 6;
            w[K::Diverge as usize] = 12;
            p.replicas = (2, 3);
            p.len = (6, 18);
            p.converge_end = 0;
        }
        "C11" => {
            p.name = "storage-discipline";
            w[K::Send as usize] = 14;
            w[K::SendAll as usize] = 4;
            w[K::Meld as usize] = 14;
            p.converge_end = 60;
        }
        "C12" => {
            p.name = "maintenance";
            w[K::ObjOp as usize] = 4;
            w[K::Diverge as usize] = 24;
            w[K::Snapshot as usize] = 10;
            w[K::SnapConflict as usize] = 3;
            w[K::Meld as usize] = 10;
            w[K::Refresh as usize] = 12;
            w[K::Reload as usize] = 5;
            w[K::Exchange as usize] = 16;
            w[K::Resolve as usize] = 2;
            if variant % 5 == 0 {
                p.name = "maintenance-write-faults";
                w[K::FailWrites as usize] = 8;
                w[K::FailRedo as usize] = 4;
            }
        }
        "C13" => {
            p.name = "commit-graph";
            w[K::Rounds as usize] = 2;
            w[K::TravelRedo as usize] = 5;
            w[K::PastStage as usize] = 3;
            w[K::ObjOp as usize] = 3;
            w[K::ReloadUntil as usize] = 4;
            w[K::Reload as usize] = 4;
            p.len = (8, 50);
        }
        "C14" => {
            p.name = "time-travel";
            w[K::Rounds as usize] = 3;
            w[K::Echo as usize] = 8;
            w[K::ReloadUntil as usize] = 10;
            w[K::TravelRedo as usize] = 4;
            w[K::PastStage as usize] = 3;
            w[K::ObjOp as usize] = 3;
            w[K::Reload as usize] = 6;
            p.len = (10, 50);
            p.converge_end = 20;
        }
        "C15" => {
            p.name = "staging";
            p.replicas = (1, 3);
            w[K::StageSave as usize] = 6;
            w[K::StageRestore as usize] = 8;
            w[K::StaleStage as usize] = 4;
            w[K::Burst as usize] = 3;
            w[K::Exchange as usize] = 16;
            w[K::Update as usize] = 30;
            w[K::Unstage as usize] = 10;
            w[K::RoundTrip as usize] = 10;
            w[K::ObjOp as usize] = 8;
            w[K::Resolve as usize] = 6;
            w[K::Snapshot as usize] = 4;
            w[K::Refresh as usize] = 10;
            w[K::ReloadUntil as usize] = 3;
            w[K::Reload as usize] = 3;
            p.converge_end = 10;
            if variant % 4 == 0 {
                // a commit that fails at a storage write must keep the stage (all of the above then
                // applies to the kept stage)
                p.name = "staging-write-faults";
                w[K::FailRedo as usize] = 8;
                w[K::FailWrites as usize] = 8;
                w[K::DiskFull as usize] = 1;
            }
        }
        "C16" => {
            p.name = "array-chains";
            // a follower that catches up several versions at once walks chains from a cold cache
            p.replicas = if variant % 3 == 0 { (1, 2) } else { (2, 3) };
            w[K::Exchange as usize] = 18;
            w[K::Burst as usize] = 4;
            w[K::Update as usize] = 40;
            w[K::EditCommit as usize] = 20;
            w[K::Snapshot as usize] = 6;
            w[K::SnapConflict as usize] = 3;
            w[K::Restart as usize] = 5;
            w[K::Resolve as usize] = 0;
            p.len = (10, 60);
            p.long_chains = true;
            p.converge_end = 10;
            if variant % 3 == 1 {
                p.name = "array-chains-foreign-stages";
                p.foreign_stage = true;
                w[K::StageSave as usize] = 2;
                w[K::StageRestore as usize] = 10;
            }
        }
        "C17" => {
            p.name = "real-backends";
            p.replicas = (1, 3);
            p.len = (6, 24);
            w[K::Restart as usize] = 8;
            w[K::Reload as usize] = 4;
            p.converge_end = 40;
        }
        "C18" => {
            p.name = "config-matrix";
            p.len = (8, 30);
            // item selection by index over name-sorted keys would legitimately diverge when
            // block names change with the hash seed: whole-store copies and meld only
            w[K::Send as usize] = 0;
            w[K::SendAll as usize] = 8;
            w[K::Diverge as usize] = 16;
            w[K::Resolve as usize] = 6;
            w[K::Snapshot as usize] = 4;
            // staged work exported and replayed (record order of an export follows hash order)
            w[K::RoundTrip as usize] = 3;
            w[K::StageSave as usize] = 2;
            w[K::StageRestore as usize] = 3;
            w[K::ObjOp as usize] = 3;
            w[K::SnapConflict as usize] = 6;
        }
        _ => {}
    }
    p
}

pub struct Gen {
    pub rng: Rng,
    pub prof: Profile,
    pub w: [u32; K::N as usize],
    pub target_len: usize,
    pub emitted: usize,
    pub ended: bool,
    pub prelude_done: bool,
    /// reads the generator itself performed on replicas while building the current batch; they
    /// touch the library's caches, so they are recorded as `Op::Read` ahead of the batch and
    /// replayed (the runner only accounts for them during generation)
    pub peeked: Vec<(usize, u8)>,
    /// a look that did not return (index into `peeked`, what happened): the runner reports it exactly
    /// as the replayed `Op::Read` would
    pub peek_crash: Option<(usize, crate::api::Crash)>,
    /// second half of the Echo macro, emitted by the next call: (author, source of the foreign packs, learner)
    pub follow: Option<(usize, usize, usize)>,
}

/// Per-run configuration drawn from the run seed (swarm).
pub fn make_cfg(prop: &str, run_seed: u64) -> (RunCfg, Gen) {
    let mut rng = Rng::new(run_seed);
    let prof = profile_for(prop, run_seed);
    let n = rng.range(prof.replicas.0, prof.replicas.1);
    let caps = [1u32, 1, 2, 3, 16];
    let mut doc = DocCfg::default_for(&mut rng);
    if prof.long_chains {
        doc.nested = false;
        doc.kinds = false;
    }
    if prop == "C04" {
        doc.bang_ids = rng.chance(1, 8);
    }
    if ["C06", "C07", "C01"].contains(&prop) && run_seed % 9 == 4 {
        // element identifiers that start with the escape character of string references
        doc.bang_ids = true;
        doc.nested = false;
    }
    if prop == "C08" {
        doc.root_ids = rng.chance(1, 4);
    }
    // (not in the sched build: every lock operation there is a scheduling point of a simulated thread
    // with its own stack; large documents times long bursts exhaust time and memory)
    if !cfg!(feature = "sched") && ["C06", "C16", "C04", "C01", "C12", "C18", "C13"].contains(&prop) && run_seed % 12 == 7 {
        // large arrays (merge and edit-script code has size-dependent paths), edited in many places at once
        doc.max_elems = rng.range(36, 60);
        doc.id_pool = doc.max_elems + rng.range(8, 20);
        doc.nested = false;
    }
    if ["C15", "C10", "C03", "C01", "C09", "C08", "C02", "C12"].contains(&prop) && run_seed % 5 == 1 {
        doc.chars = true;
    }
    if ["C08", "C01", "C04", "C12"].contains(&prop) && run_seed % 7 == 3 {
        // identified single objects containing each other, containment inverted by some edits
        doc.chain = true;
        doc.nested = false;
    }
    if prop == "C03" || prop == "C11" {
        doc.nasty = true;
        doc.floats = rng.chance(3, 4);
    }
    let cfg = RunCfg {
        seed: run_seed,
        prop: prop.to_string(),
        profile: prof.name.to_string(),
        n_replicas: n,
        hash_seed: rng.next(),
        order_seed: rng.next(),
        list_seed: rng.next(),
        cache_ad: if prof.small_caches { if cfg!(feature = "sched") && prop == "C16" { *rng.pick(&[1u32, 1, 2, 2, 3]) } else { *rng.pick(&caps) } } else { 16 },
        cache_data: if prof.small_caches { *rng.pick(&caps) } else { 16 },
        pool: rng.range(1, 16),
        doc,
        backend: if prop == "C17" { crate::backends::BACKENDS[(run_seed % 12) as usize].to_string() } else { "sim".to_string() },
    };
    // swarm: scale each weight by 0, 1/2, 1 or 2
    let mut w = prof.w;
    for x in w.iter_mut() {
        *x = match rng.below(8) {
            0 => 0,
            1 => *x / 2,
            2 => *x * 2,
            _ => *x,
        };
    }
    if w[K::Update as usize] + w[K::EditCommit as usize] == 0 {
        w[K::Update as usize] = 10;
    }
    if w[K::Commit as usize] + w[K::EditCommit as usize] == 0 {
        w[K::Commit as usize] = 6;
    }
    // short runs dominate
    let (lo, hi) = prof.len;
    let target_len = if rng.chance(2, 3) { rng.range(lo, lo + (hi - lo) / 3) } else { rng.range(lo, hi) };
    (cfg, Gen { rng, prof, w, target_len, emitted: 0, ended: false, prelude_done: false, peeked: vec![], peek_crash: None, follow: None })
}

fn commit_info(rng: &mut Rng, cfg: &DocCfg) -> Option<Value> {
    // edge shapes: present-but-empty, empty nested containers, null members
    if rng.chance(1, 12) {
        return Some(match rng.below(4) {
            0 => json!({}),
            1 => json!({"a": {}, "b": []}),
            2 => json!({"": null}),
            _ => json!({"k": [[], {}, null, ""]}),
        });
    }
    match rng.below(5) {
        0 => None,
        1 => Some(json!({"author": "a", "n": rng.below(1000)})),
        2 => Some(json!({"author": docgen::scalar(rng, cfg), "date": "2022-05-23 13:47:00CET"})),
        3 => Some(json!({"nested": {"list": [docgen::value(rng, cfg, 0), docgen::value(rng, cfg, 1)], "f": docgen::float(rng)}, "\u{e9}{\"": docgen::scalar(rng, cfg)})),
        _ => Some(json!({"f": docgen::float(rng), "g": [docgen::float(rng), -0.0, 1e-7, 1.5e300]})),
    }
}

/// Removes the identifiers `read` added to objects that the user does not name (root and
/// path-derived ones), so that the read document can serve as the base of the next edit.
pub fn strip_generated_ids(v: &mut Value) {
    match v {
        Value::Object(o) => {
            let drop = match o.get("_id") {
                Some(Value::String(s)) => s == ROOT || (s.len() == 64 && s.chars().all(|c| c.is_ascii_hexdigit())),
                _ => false,
            };
            if drop {
                o.remove("_id");
            }
            for (k, x) in o.iter_mut() {
                if k.ends_with(crate::refstore::FLAT) {
                    strip_generated_ids(x);
                }
            }
        }
        Value::Array(a) => a.iter_mut().for_each(strip_generated_ids),
        _ => {}
    }
}

impl Gen {
    fn next_doc(&mut self, w: &World, r: usize) -> Value {
        let big = w.cfg.doc.max_elems > 20;
        let n = if big && self.rng.chance(1, 2) { self.rng.range(6, 16) } else if self.prof.long_chains { 1 } else { self.rng.range(1, 3) };
        self.doc_of(w, r, n)
    }

    /// The document replica `r` currently shows (identifiers it generated removed), after `n` edits.
    fn doc_of(&mut self, w: &World, r: usize, n: usize) -> Value {
        let cfg = w.cfg.doc.clone();
        // base: what the user currently sees, else what they submitted last, else a new document
        let m = w.replicas[r].live.as_ref().unwrap();
        self.peeked.push((r, 0));
        let looked = crate::api::guard(|| m.read(None));
        if let Err(c) = &looked {
            self.peek_crash.get_or_insert((self.peeked.len() - 1, c.clone()));
        }
        let cur = looked.ok().and_then(|x| x.ok()).map(Value::Object);
        let mut base = match (cur, &w.replicas[r].model_doc) {
            (Some(mut c), _) => {
                strip_generated_ids(&mut c);
                c
            }
            (None, Some(d)) => d.clone(),
            (None, None) => return docgen::initial(&mut self.rng, &cfg),
        };
        // a document whose flattened arrays contain nulls (dangling references) is not well-formed input
        sanitize(&mut base);
        for _ in 0..n {
            docgen::mutate(&mut self.rng, &cfg, &mut base);
        }
        base
    }

    fn staging(&mut self, w: &World, r: usize) -> bool {
        let m = w.replicas[r].live.as_ref().unwrap();
        self.peeked.push((r, 1));
        let looked = crate::api::guard(|| m.has_staging());
        if let Err(c) = &looked {
            self.peek_crash.get_or_insert((self.peeked.len() - 1, c.clone()));
        }
        looked.unwrap_or(false)
    }

    /// Next batch of concrete ops (empty when the run is over) and the number of leading
    /// `Op::Read`s the generator has already performed itself.
    pub fn next(&mut self, w: &World) -> (Vec<Op>, usize) {
        self.peeked.clear();
        self.peek_crash = None;
        let batch = self.next_inner(w);
        let pre: Vec<Op> = self.peeked.iter().map(|(r, what)| Op::Read { r: *r, what: *what }).collect();
        let n = pre.len();
        if batch.is_empty() && self.peek_crash.is_none() {
            return (vec![], 0);
        }
        (pre.into_iter().chain(batch).collect(), n)
    }

    fn next_inner(&mut self, w: &World) -> Vec<Op> {
        let n = w.replicas.len();
        if !self.prelude_done {
            self.prelude_done = true;
            if self.rng.chance(self.prof.common_base, 100) {
                let cfg = w.cfg.doc.clone();
                let mut ops = vec![Op::Update { r: 0, doc: docgen::initial(&mut self.rng, &cfg), twice: false }, Op::Commit { r: 0, info: commit_info(&mut self.rng, &cfg) }];
                for r in 1..n {
                    if self.rng.chance(1, 2) {
                        ops.push(Op::Meld { r, from: 0 });
                    } else {
                        ops.push(Op::SendAll { from: 0, to: r });
                    }
                    ops.push(Op::Refresh { r });
                }
                self.emitted += ops.len();
                return ops;
            }
        }
        if self.emitted >= self.target_len {
            if !self.ended {
                self.ended = true;
                if self.rng.chance(self.prof.converge_end, 100) {
                    return vec![Op::Converge { commit: self.rng.chance(3, 4) }];
                }
            }
            return vec![];
        }
        if let Some((a, src, t)) = self.follow.take() {
            if !w.replicas[t].time_travel && !self.staging(w, t) {
                let foreign = w.replicas[src].disk.keys();
                let mine = w.replicas[a].disk.keys();
                let have = w.replicas[t].disk.keys();
                let mut lacked: Vec<String> = mine.difference(&have).cloned().collect();
                let idx_of = |k: &String| -> u64 { if k.ends_with(".delta") { k.split('-').next().and_then(|i| i.parse().ok()).unwrap_or(0) } else { u64::MAX } };
                let mut wanted: Vec<String> = lacked.iter().filter(|k| !(k.ends_with(".pack") && foreign.contains(*k))).cloned().collect();
                wanted.sort_by_key(|k| idx_of(k));
                let mut v = vec![];
                for k in wanted {
                    let pos = lacked.iter().position(|x| *x == k).unwrap();
                    lacked.remove(pos);
                    v.push(Op::Send { from: a, to: t, sel: pos as u32, delay: 0, dup: false, drop: false });
                    if self.rng.chance(1, 3) {
                        v.push(Op::Refresh { r: t });
                    }
                }
                v.push(Op::Refresh { r: t });
                self.emitted += v.len();
                return v;
            }
        }
        let r = self.rng.below(n);
        // a time-travelled replica comes back before doing anything else, most of the time
        if w.replicas[r].time_travel && self.rng.chance(4, 5) {
            self.emitted += 1;
            return vec![Op::Reload { r }];
        }
        let other = if n > 1 { (r + 1 + self.rng.below(n - 1)) % n } else { r };
        let mut k = self.rng.weighted(&self.w);
        if self.w[K::Resolve as usize] > 0 && !w.replicas[r].time_travel && self.rng.chance(1, 3) {
            let m = w.replicas[r].live.as_ref().unwrap();
            self.peeked.push((r, 2));
            let looked = crate::api::guard(|| !m.in_conflict().is_empty());
            if let Err(c) = &looked {
                self.peek_crash.get_or_insert((self.peeked.len() - 1, c.clone()));
            }
            if looked.unwrap_or(false) {
                k = K::Resolve as usize;
            }
        }
        let cfg = w.cfg.doc.clone();
        let net = self.prof.net_faults;
        let ops: Vec<Op> = match k {
            x if x == K::Update as usize => {
                if w.replicas[r].time_travel {
                    vec![Op::Reload { r }]
                } else {
                    vec![Op::Update { r, doc: self.next_doc(w, r), twice: self.rng.chance(1, 8) }]
                }
            }
            x if x == K::EditCommit as usize => {
                if w.replicas[r].time_travel {
                    vec![Op::Reload { r }]
                } else {
                    vec![Op::Update { r, doc: self.next_doc(w, r), twice: false }, Op::Commit { r, info: commit_info(&mut self.rng, &cfg) }]
                }
            }
            x if x == K::Commit as usize => vec![Op::Commit { r, info: commit_info(&mut self.rng, &cfg) }],
            x if x == K::Meld as usize => vec![Op::Meld { r, from: other }],
            x if x == K::Refresh as usize => vec![Op::Refresh { r }],
            x if x == K::Reload as usize => vec![Op::Reload { r }],
            x if x == K::ReloadUntil as usize => vec![Op::ReloadUntil { r, sel: self.rng.next() as u32, of: if self.rng.chance(1, 3) { other } else { r }, extra: if self.rng.chance(1, 4) { 1 + self.rng.below(1000) as u32 } else { 0 } }],
            x if x == K::Resolve as usize => vec![Op::Resolve { r, obj_sel: self.rng.next() as u32, leaf_sel: self.rng.next() as u32 }],
            x if x == K::Unstage as usize => vec![Op::Unstage { r }],
            x if x == K::RoundTrip as usize => vec![Op::StageRoundTrip { r }],
            x if x == K::Snapshot as usize => vec![Op::Snapshot { r }],
            x if x == K::ObjOp as usize => {
                let kind = if self.rng.chance(1, 6) { 4 } else { self.rng.below(4) as u8 };
                let mut f = serde_json::Map::new();
                if (w.cfg.prop == "C19" || w.cfg.prop == "C15") && self.rng.chance(1, 4) {
                    // a character-code object: its digest is the code itself (upper and lower case hex)
                    f.insert("#".to_string(), Value::from(*self.rng.pick(&["4A", "ff", "0041", "1F600", "e9", "AbCd12", "7"])));
                    return vec![Op::ObjOp { r, kind: 0, id_sel: self.rng.next() as u32, fields: Value::Object(f) }];
                }
                f.insert("v".to_string(), docgen::scalar(&mut self.rng, &cfg));
                if self.rng.chance(1, 2) {
                    f.insert("name".to_string(), docgen::value(&mut self.rng, &cfg, 0));
                }
                vec![Op::ObjOp { r, kind, id_sel: self.rng.next() as u32, fields: Value::Object(f) }]
            }
            x if x == K::Send as usize => {
                let burst = self.rng.range(1, 3);
                (0..burst)
                    .map(|_| Op::Send {
                        from: other,
                        to: r,
                        sel: self.rng.next() as u32,
                        delay: if net && self.rng.chance(1, 3) { self.rng.range(1, 4) as u32 } else { 0 },
                        dup: net && self.rng.chance(1, 10),
                        drop: net && self.rng.chance(1, 12),
                    })
                    .collect()
            }
            x if x == K::SendAll as usize => vec![Op::SendAll { from: other, to: r }],
            x if x == K::Tick as usize => vec![Op::Tick],
            x if x == K::Partition as usize => vec![Op::Partition { mask: self.rng.range(1, (1usize << n) - 2) as u32 }],
            x if x == K::Heal as usize => vec![Op::Heal],
            x if x == K::Restart as usize => vec![Op::Restart { r }],
            x if x == K::FailWrites as usize => vec![Op::FailWrites { r, nth: self.rng.range(1, 3) as u32, repeat: if self.rng.chance(1, 4) { self.rng.range(2, 3) as u32 } else { 1 } }],
            x if x == K::DiskFull as usize => vec![Op::DiskFull { r, on: self.rng.chance(1, 2) }],
            x if x == K::Read as usize => vec![Op::Read { r, what: if self.rng.chance(1, 2) { 0 } else { 16 + self.rng.below(200) as u8 } }],
            x if x == K::Diverge as usize => {
                if n < 2 || w.replicas[r].time_travel || w.replicas[other].time_travel {
                    vec![Op::Reload { r }]
                } else {
                    let mut v = vec![];
                    v.push(Op::Update { r, doc: self.next_doc(w, r), twice: false });
                    v.push(Op::Commit { r, info: commit_info(&mut self.rng, &cfg) });
                    v.push(Op::Update { r: other, doc: self.next_doc(w, other), twice: false });
                    v.push(Op::Commit { r: other, info: commit_info(&mut self.rng, &cfg) });
                    v.push(Op::Meld { r, from: other });
                    v.push(Op::Refresh { r });
                    if self.rng.chance(1, 2) {
                        v.push(Op::Meld { r: other, from: r });
                        v.push(Op::Refresh { r: other });
                    }
                    v
                }
            }
            x if x == K::Trickle as usize => {
                // deliver what `r` lacks from `other`, one file at a time, in a biased order
                let src = w.replicas[other].disk.keys();
                let have = w.replicas[r].disk.keys();
                let mut lacked: Vec<String> = src.difference(&have).cloned().collect(); // name-sorted, as Send sees it
                if lacked.is_empty() {
                    vec![Op::Refresh { r }]
                } else {
                    let idx_of = |k: &String| -> u64 { if k.ends_with(".delta") { k.split('-').next().and_then(|i| i.parse().ok()).unwrap_or(0) } else { 0 } };
                    let mut order: Vec<String> = lacked.clone();
                    match self.rng.below(6) {
                        0 => order.sort_by_key(|k| (k.ends_with(".pack"), std::cmp::Reverse(idx_of(k)))), // children first, packs last
                        1 => order.sort_by_key(|k| (k.ends_with(".pack"), idx_of(k))),                      // blocks in order, packs last
                        2 => order.sort_by_key(|k| (!k.ends_with(".pack"), std::cmp::Reverse(idx_of(k)))), // packs first, children first
                        3 => order.sort_by_key(|k| (!k.ends_with(".pack"), idx_of(k))),                     // causal order
                        _ => self.rng.shuffle(&mut order),
                    }
                    let mut v = vec![];
                    if self.staging(w, r) {
                        v.push(if self.rng.chance(1, 2) { Op::Commit { r, info: None } } else { Op::Unstage { r } });
                    }
                    let limit = self.rng.range(1, order.len().min(12));
                    for k in order.into_iter().take(limit) {
                        let pos = lacked.iter().position(|x| *x == k).unwrap();
                        lacked.remove(pos);
                        v.push(Op::Send { from: other, to: r, sel: pos as u32, delay: 0, dup: self.rng.chance(1, 12), drop: false });
                        if self.rng.chance(5, 6) {
                            v.push(Op::Refresh { r });
                        }
                    }
                    v
                }
            }
            x if x == K::Echo as usize => {
                if n < 2 || w.replicas[r].time_travel {
                    vec![Op::Refresh { r }]
                } else {
                    let src = w.replicas[other].disk.keys();
                    let have = w.replicas[r].disk.keys();
                    let mut lacked: Vec<String> = src.difference(&have).cloned().collect();
                    let mut v = vec![];
                    if self.staging(w, r) {
                        v.push(if self.rng.chance(1, 2) { Op::Commit { r, info: None } } else { Op::Unstage { r } });
                    }
                    // packs only: the objects become known to r, the blocks that name them do not
                    let packs: Vec<String> = lacked.iter().filter(|k| k.ends_with(".pack")).cloned().collect();
                    for k in packs.into_iter().take(4) {
                        let pos = lacked.iter().position(|x| *x == k).unwrap();
                        lacked.remove(pos);
                        v.push(Op::Send { from: other, to: r, sel: pos as u32, delay: 0, dup: false, drop: false });
                    }
                    v.push(Op::Refresh { r });
                    // r now submits what `other` shows (same content => same object digests)
                    let edits = if self.rng.chance(1, 4) { 0 } else { 1 };
                    let doc = self.doc_of(w, other, edits);
                    v.push(Op::Update { r, doc, twice: false });
                    v.push(Op::Commit { r, info: commit_info(&mut self.rng, &cfg) });
                    if self.w[K::ReloadUntil as usize] > 0 {
                        // the commit just made depends on a pack no block of its history names: travel to it
                        // (the newest checkpoint) and back, now and again from a restarted replica
                        if self.rng.chance(1, 2) {
                            v.push(Op::Restart { r });
                        }
                        v.push(Op::ReloadUntil { r, sel: u32::MAX, of: r, extra: 0 });
                        v.push(Op::Reload { r });
                    }
                    if n >= 3 {
                        // second half (next call, when r's store is known): a third replica learns r's
                        // blocks and r's own packs, never the foreign packs
                        let t = (0..n).find(|x| *x != r && *x != other).unwrap();
                        self.follow = Some((r, other, t));
                    }
                    v
                }
            }
            x if x == K::Rounds as usize => {
                if n < 2 || (0..n).any(|x| w.replicas[x].time_travel) {
                    vec![Op::Reload { r }]
                } else {
                    let rounds = self.rng.range(2, 6);
                    let mut v = vec![];
                    for x in 0..n {
                        if self.staging(w, x) {
                            v.push(Op::Commit { r: x, info: None });
                        }
                    }
                    // documents are derived from what each replica shows now; later rounds only touch a
                    // counter so that the ops stay concrete without knowing the merged documents
                    let mut docs: Vec<Value> = (0..n).map(|x| self.doc_of(w, x, 1)).collect();
                    for round in 0..rounds {
                        for x in 0..n {
                            if let Some(o) = docs[x].as_object_mut() {
                                o.insert("title".to_string(), json!(format!("r{}-{}", x, round)));
                            }
                            v.push(Op::Update { r: x, doc: docs[x].clone(), twice: false });
                            v.push(Op::Commit { r: x, info: None });
                        }
                        for a in 0..n {
                            for b in 0..n {
                                if a != b {
                                    v.push(Op::Meld { r: a, from: b });
                                }
                            }
                        }
                        for x in 0..n {
                            v.push(Op::Refresh { r: x });
                        }
                    }
                    if self.w[K::ReloadUntil as usize] > 0 {
                        // travel through the graph just built (late and early head sets), then come back
                        for _ in 0..self.rng.range(1, 3) {
                            v.push(Op::ReloadUntil { r, sel: self.rng.next() as u32, of: r, extra: 0 });
                        }
                        v.push(Op::Reload { r });
                    }
                    v
                }
            }
            x if x == K::FailRedo as usize => {
                if w.replicas[r].time_travel {
                    vec![Op::Reload { r }]
                } else {
                    let mut v = vec![];
                    if self.staging(w, r) {
                        v.push(Op::Commit { r, info: None });
                    }
                    let doc = self.next_doc(w, r);
                    let info = commit_info(&mut self.rng, &cfg);
                    v.push(Op::Update { r, doc: doc.clone(), twice: false });
                    v.push(Op::FailWrites { r, nth: self.rng.range(1, 2) as u32, repeat: 1 });
                    v.push(Op::Commit { r, info: info.clone() });
                    match self.rng.below(3) {
                        0 => {
                            // the user gives up, later makes the same edit again
                            v.push(Op::Unstage { r });
                            v.push(Op::Update { r, doc, twice: false });
                        }
                        1 => {
                            // the stage is exported, discarded and replayed
                            v.push(Op::StageSave { r, keep: false });
                            v.push(Op::StageRestore { r, older: false });
                        }
                        _ => {
                            // exported and discarded, something else happens in between, then replayed
                            v.push(Op::StageSave { r, keep: false });
                            v.push(Op::Refresh { r });
                            v.push(Op::StageRestore { r, older: false });
                        }
                    }
                    v.push(Op::Commit { r, info });
                    if self.rng.chance(2, 3) {
                        v.push(Op::Restart { r });
                    } else if n > 1 {
                        v.push(Op::Meld { r: other, from: r });
                        v.push(Op::Refresh { r: other });
                    }
                    v
                }
            }
            x if x == K::StageSave as usize => vec![Op::StageSave { r, keep: self.rng.chance(1, 3) }],
            x if x == K::StageRestore as usize => {
                if self.prof.foreign_stage && other != r && self.rng.chance(2, 3) {
                    vec![Op::StageForeign { r, from: other }]
                } else {
                    vec![Op::StageRestore { r, older: false }]
                }
            }
            x if x == K::TravelRedo as usize => {
                if w.replicas[r].time_travel {
                    vec![Op::Reload { r }]
                } else {
                    let mut v = vec![];
                    if self.staging(w, r) {
                        v.push(Op::Commit { r, info: None });
                    }
                    let info = commit_info(&mut self.rng, &cfg);
                    let id_sel = self.rng.next() as u32;
                    let kind = if self.rng.chance(3, 4) { 1 } else { 0 };
                    let fields = json!({"v": self.rng.below(5)});
                    // a commit that needs no new pack (a deletion, or content that may be stored already) ...
                    v.push(Op::ObjOp { r, kind, id_sel, fields: fields.clone() });
                    v.push(Op::Commit { r, info: info.clone() });
                    // ... travel to its parents (the second newest head set), make the identical change again
                    v.push(Op::ReloadUntil { r, sel: u32::MAX - 1, of: r, extra: 0 });
                    v.push(Op::ObjOp { r, kind, id_sel, fields });
                    v.push(Op::Commit { r, info });
                    v.push(Op::ObjOp { r, kind: 0, id_sel: self.rng.next() as u32, fields: json!({"v": "after"}) });
                    v.push(Op::Commit { r, info: None });
                    // ... and travel to the heads that last commit returned
                    v.push(Op::ReloadUntil { r, sel: u32::MAX, of: r, extra: 0 });
                    v.push(Op::Reload { r });
                    v
                }
            }
            x if x == K::Resubmit as usize => {
                if w.replicas[r].time_travel {
                    vec![Op::Reload { r }]
                } else {
                    let mut v = vec![];
                    let d1 = self.next_doc(w, r);
                    let mut d2 = d1.clone();
                    docgen::mutate(&mut self.rng, &cfg, &mut d2);
                    docgen::mutate(&mut self.rng, &cfg, &mut d2);
                    v.push(Op::Update { r, doc: d1.clone(), twice: false });
                    if self.rng.chance(1, 2) {
                        v.push(Op::Commit { r, info: None });
                    }
                    v.push(Op::Update { r, doc: d2, twice: false });
                    v.push(Op::StageSave { r, keep: false });
                    v.push(Op::Update { r, doc: d1.clone(), twice: false });
                    v.push(Op::StageRestore { r, older: false });
                    v.push(Op::Update { r, doc: d1, twice: self.rng.chance(1, 2) });
                    v
                }
            }
            x if x == K::SnapConflict as usize => {
                if n < 2 || w.replicas[r].time_travel || w.replicas[other].time_travel {
                    vec![Op::Reload { r }]
                } else {
                    let mut v = vec![];
                    for q in [r, other] {
                        if self.staging(w, q) {
                            v.push(Op::Commit { r: q, info: None });
                        }
                    }
                    v.extend([Op::Meld { r, from: other }, Op::Refresh { r }, Op::Meld { r: other, from: r }, Op::Refresh { r: other }]);
                    let base = self.next_doc(w, r);
                    // both insert into the first array; `other` will append once more afterwards
                    let with = |doc: &Value, id: &str, front: bool| -> Value {
                        let mut d = doc.clone();
                        let known = docgen::tracked_ids(&d).iter().any(|x| x == id);
                        if let Some(Value::Array(a)) = d.as_object_mut().and_then(|o| o.get_mut(docgen::ARRAY_KEYS[0])) {
                            if !known {
                                let e = json!({"_id": id, "v": id});
                                if front { a.insert(0, e) } else { a.push(e) }
                            }
                        }
                        d
                    };
                    let (mine, theirs) = (with(&base, "snap-p", true), with(&base, "snap-q", false));
                    v.extend([Op::Update { r, doc: mine, twice: false }, Op::Commit { r, info: None }]);
                    v.extend([Op::Update { r: other, doc: theirs.clone(), twice: false }, Op::Commit { r: other, info: None }]);
                    v.extend([Op::Meld { r, from: other }, Op::Refresh { r }, Op::Snapshot { r }, Op::Commit { r, info: None }]);
                    v.extend([Op::Update { r: other, doc: with(&theirs, "snap-z", false), twice: false }, Op::Commit { r: other, info: None }]);
                    v.extend([Op::Meld { r, from: other }, Op::Refresh { r }]);
                    if self.rng.chance(1, 2) {
                        v.extend([Op::Meld { r: other, from: r }, Op::Refresh { r: other }]);
                    }
                    v
                }
            }
            x if x == K::PastStage as usize => {
                if w.replicas[r].time_travel {
                    vec![Op::Reload { r }]
                } else {
                    let mut v = vec![];
                    if self.staging(w, r) {
                        v.push(Op::Commit { r, info: None });
                    }
                    let d1 = self.next_doc(w, r);
                    v.push(Op::Update { r, doc: d1.clone(), twice: false });
                    if self.rng.chance(1, 3) {
                        // two exports outstanding (autosave): an early one and a later one that extends it; in
                        // the past the later one is replayed and committed, then the early one is replayed on
                        // top and discarded
                        v.push(Op::StageSave { r, keep: true });
                        let committed_between = self.rng.chance(1, 2);
                        if committed_between {
                            // ... the early one is committed in the meantime, the later one builds on that commit
                            v.push(Op::Commit { r, info: None });
                        }
                        let mut d2 = d1.clone();
                        docgen::mutate(&mut self.rng, &cfg, &mut d2);
                        if let Some(o) = d2.as_object_mut() {
                            o.insert("n".to_string(), json!(self.rng.below(1000)));
                        }
                        v.push(Op::Update { r, doc: d2, twice: false });
                        v.push(Op::StageSave { r, keep: false });
                        v.push(Op::ReloadUntil { r, sel: if committed_between || self.rng.chance(1, 2) { u32::MAX - 1 } else { self.rng.next() as u32 }, of: r, extra: 0 });
                        v.push(Op::StageRestore { r, older: false });
                        v.push(Op::Commit { r, info: None });
                        v.push(Op::StageRestore { r, older: true });
                        v.push(Op::Unstage { r });
                        v.push(Op::ReloadUntil { r, sel: u32::MAX, of: r, extra: 0 });
                        v.push(Op::Reload { r });
                        return v;
                    }
                    if self.rng.chance(1, 2) {
                        // the staged work builds on a commit that the travel target does not contain
                        v.push(Op::Commit { r, info: None });
                        let mut d2 = d1.clone();
                        docgen::mutate(&mut self.rng, &cfg, &mut d2);
                        if let Some(o) = d2.as_object_mut() {
                            o.insert("n".to_string(), json!(self.rng.below(1000)));
                        }
                        v.push(Op::Update { r, doc: d2, twice: false });
                    }
                    v.push(Op::StageSave { r, keep: false });
                    v.push(Op::ReloadUntil { r, sel: if self.rng.chance(1, 2) { u32::MAX - 1 } else { self.rng.next() as u32 }, of: r, extra: 0 });
                    v.push(Op::StageRestore { r, older: false });
                    v.push(Op::Commit { r, info: None });
                    if self.rng.chance(1, 2) {
                        v.push(Op::ObjOp { r, kind: 0, id_sel: self.rng.next() as u32, fields: json!({"v": "branch"}) });
                        v.push(Op::Commit { r, info: None });
                    }
                    v.push(Op::ReloadUntil { r, sel: u32::MAX, of: r, extra: 0 });
                    if n > 1 && self.rng.chance(1, 2) {
                        v.push(Op::Meld { r: other, from: r });
                        v.push(Op::Refresh { r: other });
                    }
                    v.push(Op::Reload { r });
                    v
                }
            }
            x if x == K::StaleStage as usize => {
                if n < 2 || w.replicas[r].time_travel || w.replicas[other].time_travel {
                    vec![Op::Reload { r }]
                } else {
                    let mut v = vec![];
                    for q in [r, other] {
                        if self.staging(w, q) {
                            v.push(Op::Commit { r: q, info: None });
                        }
                    }
                    v.extend([Op::Meld { r, from: other }, Op::Refresh { r }, Op::Meld { r: other, from: r }, Op::Refresh { r: other }]);
                    // both edit the same objects from the same version: r only stages, other commits
                    let base = self.next_doc(w, r);
                    let touch = |doc: &Value, tag: &str, i: u64| -> Value {
                        let mut d = doc.clone();
                        if let Some(o) = d.as_object_mut() {
                            o.insert("n".to_string(), json!(format!("{}{}", tag, i)));
                            if let Some(Value::Array(a)) = o.get_mut(docgen::ARRAY_KEYS[0]) {
                                if let Some(e) = a.first_mut().and_then(|e| e.as_object_mut()) {
                                    if !e.contains_key("#") {
                                        e.insert("k".to_string(), json!(format!("{}{}", tag, i)));
                                    }
                                }
                            }
                        }
                        d
                    };
                    let i = self.rng.below(1000) as u64;
                    v.push(Op::Update { r, doc: touch(&base, "mine", i), twice: false });
                    if self.rng.chance(1, 2) {
                        v.push(Op::Update { r, doc: touch(&base, "mine", i + 1), twice: false });
                    }
                    v.push(Op::StageSave { r, keep: false });
                    v.extend([Op::Update { r: other, doc: touch(&base, "theirs", i), twice: false }, Op::Commit { r: other, info: None }]);
                    v.extend([Op::Meld { r, from: other }, Op::Refresh { r }, Op::StageRestore { r, older: false }]);
                    match self.rng.below(3) {
                        0 => v.push(Op::Unstage { r }),
                        1 => v.extend([Op::StageRoundTrip { r }, Op::Unstage { r }]),
                        _ => v.push(Op::Commit { r, info: None }),
                    }
                    v.push(Op::Refresh { r });
                    v
                }
            }
            x if x == K::Twins as usize => {
                if n < 2 || w.replicas[r].time_travel || w.replicas[other].time_travel {
                    vec![Op::Reload { r }]
                } else {
                    let mut v = vec![];
                    for q in [r, other] {
                        if self.staging(w, q) {
                            v.push(Op::Commit { r: q, info: None });
                        }
                    }
                    v.extend([Op::Meld { r, from: other }, Op::Refresh { r }, Op::Meld { r: other, from: r }, Op::Refresh { r: other }]);
                    let base = self.next_doc(w, r);
                    let stamp = |doc: &Value, i: u64| -> Value {
                        let mut d = doc.clone();
                        if let Some(o) = d.as_object_mut() {
                            o.insert("n".to_string(), json!(i));
                            if let Some(Value::Array(a)) = o.get_mut(docgen::ARRAY_KEYS[0]) {
                                if let Some(e) = a.first_mut().and_then(|e| e.as_object_mut()) {
                                    if !e.contains_key("#") {
                                        e.insert("k".to_string(), json!(i));
                                    }
                                }
                            }
                        }
                        d
                    };
                    let i = self.rng.below(1000) as u64;
                    let (d1, d2, d3) = (stamp(&base, i), stamp(&base, i + 1), stamp(&base, i + 2));
                    v.extend([Op::Update { r, doc: d1, twice: false }, Op::Commit { r, info: None }, Op::Update { r, doc: d2.clone(), twice: false }, Op::Commit { r, info: None }]);
                    v.extend([Op::Update { r: other, doc: d2, twice: false }, Op::Commit { r: other, info: None }]);
                    v.extend([Op::Meld { r, from: other }, Op::Refresh { r }, Op::Meld { r: other, from: r }, Op::Refresh { r: other }]);
                    let s = self.rng.next() as u32;
                    let same_choice = self.rng.chance(1, 4);
                    for j in 0..2u32 {
                        v.push(Op::Resolve { r, obj_sel: s.wrapping_add(j), leaf_sel: 0 });
                        v.push(Op::Resolve { r: other, obj_sel: s.wrapping_add(j), leaf_sel: if same_choice { 0 } else { 1 } });
                    }
                    v.extend([Op::Commit { r, info: None }, Op::Commit { r: other, info: None }, Op::Converge { commit: true }]);
                    v.extend([Op::Update { r, doc: d3, twice: false }, Op::Commit { r, info: None }, Op::Meld { r: other, from: r }, Op::Refresh { r: other }]);
                    v
                }
            }
            x if x == K::SameEdit as usize => {
                if n < 2 {
                    vec![]
                } else {
                    vec![Op::SameEdit { a: r, b: other, doc: self.next_doc(w, r) }]
                }
            }
            x if x == K::Burst as usize => {
                if w.replicas[r].time_travel {
                    vec![Op::Reload { r }]
                } else {
                    let mut doc = self.next_doc(w, r);
                    let count = if self.rng.chance(1, 12) && !cfg!(feature = "sched") { self.rng.range(100, 140) } else { self.rng.range(10, 24) };
                    // every version also submitted a second time (nothing may change, at any chain length)
                    let twice = self.rng.chance(1, 3);
                    let mut v = vec![];
                    for i in 0..count {
                        // a small edit of the root and of one array, so that both an object chain and an
                        // edit-script chain grow by one revision per step
                        if let Some(o) = doc.as_object_mut() {
                            o.insert("n".to_string(), json!(i));
                            if let Some(Value::Array(a)) = o.get_mut(docgen::ARRAY_KEYS[0]) {
                                if a.len() >= 2 {
                                    a.rotate_left(1);
                                    if let Some(e) = a[0].as_object_mut() {
                                        e.insert("k".to_string(), json!(i));
                                    }
                                }
                            }
                        }
                        v.push(Op::Update { r, doc: doc.clone(), twice });
                        if self.w[K::RoundTrip as usize] > 0 && self.rng.chance(1, 5) {
                            // long uncommitted chains exported, discarded and replayed (indices across 9 -> 10 -> 11)
                            v.push(Op::StageRoundTrip { r });
                        }
                        if self.rng.chance(1, 25) {
                            v.push(Op::Commit { r, info: None });
                        }
                    }
                    v
                }
            }
            x if x == K::Exchange as usize => {
                let mut v = vec![];
                if self.staging(w, r) {
                    v.push(if self.rng.chance(3, 4) { Op::Commit { r, info: None } } else { Op::Unstage { r } });
                }
                v.push(Op::Meld { r, from: other });
                v.push(Op::Refresh { r });
                v
            }
            _ => vec![],
        };
        self.emitted += ops.len().max(1);
        ops
    }
}

/// Drops `null` entries from flattened arrays and null flattened values left behind by
/// references to deleted objects, so that the next submitted document is well-formed.
pub fn sanitize(v: &mut Value) {
    fn flat(v: &mut Value) {
        match v {
            Value::Array(a) => {
                a.retain(|x| x.is_object());
                a.iter_mut().for_each(flat);
            }
            Value::Object(o) => {
                for (k, x) in o.iter_mut() {
                    if k.ends_with(crate::refstore::FLAT) {
                        flat(x);
                    }
                }
            }
            _ => {}
        }
    }
    if let Value::Object(o) = v {
        for (k, x) in o.iter_mut() {
            if k.ends_with(crate::refstore::FLAT) {
                flat(x);
            }
        }
    }
}
