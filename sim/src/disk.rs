//! `SimAdapter`: the storage seam. All durable state of a replica is one
//! `BTreeMap<String, Vec<u8>>` the simulator owns; every call is logged; faults are injected
//! here (write errors, disk full, read errors, crash snapshots at write boundaries, listing
//! permutation) and counted when they actually fire.
use crate::rng::Rng;
use anyhow::{anyhow, Result};
use melda::adapter::Adapter;
use std::any::Any;
use std::collections::{BTreeMap, BTreeSet};
use std::sync::{Arc, Mutex};

pub type Items = BTreeMap<String, Vec<u8>>;

#[derive(Clone, Debug, PartialEq)]
pub enum WriteOutcome {
    Stored,
    Existing,        // key existed with identical bytes: no-op
    ExistingDiffers, // key existed with different bytes: kept the old ones (write-once)
    Failed,          // injected error
}

#[derive(Clone, Debug)]
pub enum Call {
    Read { key: String, off: usize, len: usize, ok: bool },
    Write { key: String, data: Vec<u8>, outcome: WriteOutcome },
    List { ext: String, n: usize },
}

#[derive(Default, Clone, Debug)]
pub struct Fired {
    pub write_err: u64,
    pub disk_full: u64,
    pub read_err: u64,
    pub list_permuted: u64,
    pub crash_snapshots: u64,
}

pub struct Disk {
    pub map: Items,
    pub log: Vec<Call>,
    pub logging: bool,
    pub writes: u64,
    pub reads: u64,
    list_rng: Rng,
    pub fail_writes: BTreeSet<u64>, // absolute write numbers (1-based) that fail
    pub fail_reads: BTreeSet<u64>,
    pub disk_full: bool,
    pub snap_on: bool,
    pub snaps: Vec<Items>, // snapshot taken before each write while snap_on
    pub fired: Fired,
    /// C17: a real backend behind the map. Writes go to both; reads and listings are answered
    /// by the backend and compared with the map (the reference model: first write wins).
    pub backend: Option<Box<dyn Adapter>>,
    /// C17, persistent backends: a second handle on the same storage, used by the file-sync transport
    /// (items arrive behind the replica's own adapter object, as with a real synchronisation tool)
    pub sync_handle: Option<Box<dyn Adapter>>,
    pub backend_name: String,
    pub backend_mismatch: Option<String>,
    pub backend_calls: u64,
}

impl Disk {
    pub fn new(list_seed: u64) -> Disk {
        Disk {
            map: Items::new(),
            log: vec![],
            logging: true,
            writes: 0,
            reads: 0,
            list_rng: Rng::new(list_seed),
            fail_writes: BTreeSet::new(),
            fail_reads: BTreeSet::new(),
            disk_full: false,
            snap_on: false,
            snaps: vec![],
            fired: Fired::default(),
            backend: None,
            sync_handle: None,
            backend_name: String::new(),
            backend_mismatch: None,
            backend_calls: 0,
        }
    }
}

#[derive(Clone)]
pub struct DiskRef(pub Arc<Mutex<Disk>>);

impl DiskRef {
    pub fn new(list_seed: u64) -> DiskRef {
        DiskRef(Arc::new(Mutex::new(Disk::new(list_seed))))
    }
    pub fn from_items(items: Items, list_seed: u64) -> DiskRef {
        let d = DiskRef::new(list_seed);
        d.0.lock().unwrap().map = items;
        d
    }
    pub fn with<R>(&self, f: impl FnOnce(&mut Disk) -> R) -> R {
        let mut g = self.0.lock().unwrap_or_else(|e| e.into_inner());
        f(&mut g)
    }
    /// A file-sync tool drops an item into the store (write-once), behind the adapter's back.
    pub fn put(&self, key: &str, bytes: &[u8]) {
        self.with(|d| {
            if !d.map.contains_key(key) {
                if let Some(b) = d.sync_handle.as_ref().or(d.backend.as_ref()) {
                    d.backend_calls += 1;
                    if let Err(e) = b.write_object(key, bytes) {
                        d.backend_mismatch.get_or_insert(format!("write_object({}) failed on the backend: {}", key, e));
                    }
                }
                d.map.insert(key.to_string(), bytes.to_vec());
            }
        })
    }
    pub fn items(&self) -> Items {
        self.with(|d| d.map.clone())
    }
    pub fn keys(&self) -> BTreeSet<String> {
        self.with(|d| d.map.keys().cloned().collect())
    }
    pub fn take_log(&self) -> Vec<Call> {
        self.with(|d| std::mem::take(&mut d.log))
    }
    pub fn adapter(&self) -> Box<dyn Adapter> {
        Box::new(SimAdapter { disk: self.clone() })
    }
    pub fn store(&self) -> crate::seam::Store {
        crate::seam::Arc::new(crate::seam::RwLock::new(self.adapter()))
    }
}

pub struct SimAdapter {
    disk: DiskRef,
}

impl Adapter for SimAdapter {
    fn as_any(&self) -> &dyn Any {
        self
    }
    fn as_any_mut(&mut self) -> &mut dyn Any {
        self
    }

    fn read_object(&self, key: &str, offset: usize, length: usize) -> Result<Vec<u8>> {
        self.disk.with(|d| {
            d.reads += 1;
            let r: Result<Vec<u8>> = if d.fail_reads.remove(&d.reads) {
                d.fired.read_err += 1;
                Err(anyhow!("sim: injected read error (EIO) on {}", key))
            } else {
                match d.map.get(key) {
                    None => Err(anyhow!("sim: object not found: {}", key)),
                    Some(data) => {
                        if offset == 0 && length == 0 {
                            Ok(data.clone())
                        } else if offset.checked_add(length).map_or(true, |e| e > data.len()) {
                            Err(anyhow!("sim: invalid slice range for key: {}", key))
                        } else {
                            Ok(data[offset..offset + length].to_vec())
                        }
                    }
                }
            };
            if d.logging {
                d.log.push(Call::Read { key: key.to_string(), off: offset, len: length, ok: r.is_ok() });
            }
            if let Some(b) = &d.backend {
                d.backend_calls += 1;
                let in_contract = (offset == 0 && length == 0) || (length > 0 && r.is_ok()) || !d.map.contains_key(key);
                if in_contract {
                    let br = b.read_object(key, offset, length);
                    match (&r, &br) {
                        (Ok(x), Ok(y)) if x == y => {}
                        (Err(_), Err(_)) => {}
                        _ => {
                            let msg = format!("read_object({}, {}, {}) on {}: backend returned {} but the first write to this key gives {}", key, offset, length, d.backend_name,
                                match &br { Ok(y) => format!("{} bytes (sha {})", y.len(), &crate::refstore::sha_hex(y)[..12]), Err(e) => format!("error {}", e) },
                                match &r { Ok(x) => format!("{} bytes (sha {})", x.len(), &crate::refstore::sha_hex(x)[..12]), Err(_) => "an error (no such item / out of range)".to_string() });
                            d.backend_mismatch.get_or_insert(msg);
                        }
                    }
                    return br;
                }
            }
            r
        })
    }

    fn write_object(&self, key: &str, data: &[u8]) -> Result<()> {
        self.disk.with(|d| {
            d.writes += 1;
            if d.snap_on {
                let s = d.map.clone();
                d.snaps.push(s);
                d.fired.crash_snapshots += 1;
            }
            let outcome = if d.disk_full {
                d.fired.disk_full += 1;
                WriteOutcome::Failed
            } else if d.fail_writes.remove(&d.writes) {
                d.fired.write_err += 1;
                WriteOutcome::Failed
            } else {
                match d.map.get(key) {
                    Some(old) if old.as_slice() == data => WriteOutcome::Existing,
                    Some(_) => WriteOutcome::ExistingDiffers,
                    None => {
                        d.map.insert(key.to_string(), data.to_vec());
                        WriteOutcome::Stored
                    }
                }
            };
            let failed = outcome == WriteOutcome::Failed;
            if !failed {
                if let Some(b) = &d.backend {
                    d.backend_calls += 1;
                    if let Err(e) = b.write_object(key, data) {
                        d.backend_mismatch.get_or_insert(format!("write_object({}) failed on {}: {}", key, d.backend_name, e));
                    }
                }
            }
            if d.logging {
                d.log.push(Call::Write { key: key.to_string(), data: data.to_vec(), outcome });
            }
            if failed {
                Err(anyhow!("sim: injected write error on {}", key))
            } else {
                Ok(())
            }
        })
    }

    fn list_objects(&self, ext: &str) -> Result<Vec<String>> {
        self.disk.with(|d| {
            let mut v: Vec<String> = d
                .map
                .keys()
                .filter(|k| k.ends_with(ext))
                .map(|k| k[..k.len() - ext.len()].to_string())
                .collect();
            if v.len() > 1 {
                d.list_rng.shuffle(&mut v);
                d.fired.list_permuted += 1;
            }
            if d.logging {
                d.log.push(Call::List { ext: ext.to_string(), n: v.len() });
            }
            if let Some(b) = &d.backend {
                d.backend_calls += 1;
                match b.list_objects(ext) {
                    Ok(bl) => {
                        let (mut x, mut y) = (v.clone(), bl.clone());
                        x.sort();
                        y.sort();
                        if x != y {
                            let only_b: Vec<&String> = y.iter().filter(|k| !x.contains(k)).take(4).collect();
                            let only_m: Vec<&String> = x.iter().filter(|k| !y.contains(k)).take(4).collect();
                            d.backend_mismatch.get_or_insert(format!("list_objects({:?}) on {}: backend lists {} names, model {}; only backend {:?}, only model {:?}", ext, d.backend_name, y.len(), x.len(), only_b, only_m));
                        }
                        return Ok(bl);
                    }
                    Err(e) => {
                        d.backend_mismatch.get_or_insert(format!("list_objects({:?}) failed on {}: {}", ext, d.backend_name, e));
                    }
                }
            }
            Ok(v)
        })
    }
}
