//! Command line driver: seeded search over many runs on worker processes, known findings,
//! minimisation, fresh-process replay, evidence.
use crate::ops::Op;
use crate::rng::splitmix;
use crate::runner::{self, RunResult};
use crate::world::Violation;
use serde_json::{json, Map, Value};
use std::collections::{BTreeMap, BTreeSet};
use std::time::Instant;

pub const DEFAULT_SEED: u64 = 20260925;

pub fn verif_home() -> String {
    std::env::var("VERIF_HOME").unwrap_or_else(|_| "/verif".to_string())
}

fn arg<'a>(args: &'a [String], name: &str) -> Option<&'a str> {
    args.iter().position(|a| a == name).and_then(|i| args.get(i + 1)).map(|s| s.as_str())
}

pub fn run_seed(base: u64, prop: &str, k: u64) -> u64 {
    let mut x = base ^ crate::rng::fnv64(prop.as_bytes()).rotate_left(17) ^ k.wrapping_mul(0x9E37_79B9_7F4A_7C15);
    splitmix(&mut x)
}

// ---------------------------------------------------------------- property table

pub struct PropSpec {
    pub id: &'static str,
    pub level: &'static str,
    pub quick_runs: u64,
    pub thorough_runs: u64,
    /// probes that make a run non-trivial for this property (any of them > 0) ...
    pub nontrivial_any: &'static [&'static str],
    /// ... provided all of these are > 0 too
    pub nontrivial_all: &'static [&'static str],
    pub rule: &'static str,
    /// reach probes that should not be zero over a whole batch
    pub reach: &'static [&'static str],
}

pub fn spec(prop: &str) -> Option<PropSpec> {
    let s = |id, level, quick_runs, thorough_runs, nontrivial_any, nontrivial_all, rule, reach| PropSpec { id, level, quick_runs, thorough_runs, nontrivial_any, nontrivial_all, rule, reach };
    Some(match prop {
        "C01" => s("C01", "exploration", 60000, 1500000, &["probe.child_delivered_before_parent", "probe.block_before_pack", "probe.meld_items"], &["probe.pair_compared"],
            "seeded multi-replica histories (update/commit/meld/refresh/resolve/unstage/time travel, file-by-file transport with drop/dup/reorder/partition); non-trivial = two replicas with equal item sets were compared AND items travelled (meld or out-of-causal-order file delivery); distinct = distinct op/fault sequence hash",
            &["probe.pair_compared", "probe.converge", "probe.child_delivered_before_parent", "probe.block_before_pack", "probe.reopen_compared", "probe.conflict_at_sync", "probe.array_in_conflict_at_sync"]),
        "C02" => s("C02", "exploration", 60000, 1200000, &["probe.block_held_back"], &["probe.ref_compared"],
            "histories in which single block/pack files are delivered one at a time in seeded (biased) orders with a refresh after deliveries; in a quarter of the runs (thorough: all) the newest 4 (thorough: 5) files of the richest store are additionally delivered in ALL k! orders to a replica holding the rest, refresh and comparison after every file; non-trivial = at least one block was observed held back at a sync point; distinct = distinct op/fault sequence hash",
            &["probe.block_held_back", "probe.held_back_depth_ge_2", "probe.child_delivered_before_parent", "probe.block_before_pack", "probe.deliver_duplicate", "enum.c02_permutations", "enum.c02_prefixes", "probe.refresh_after_time_travel", "probe.commit_in_the_past", "fault.walk_torn_arrival", "fault.walk_restore"]),
        "C03" => s("C03", "exploration", 100000, 1500000, &["probe.reopen_compared"], &["probe.commit_ok"],
            "histories with nasty JSON content and 1..n staged operations between commits; after every successful commit a second replica is opened on the same storage and compared; non-trivial = at least one commit was compared with a fresh open; distinct = distinct op sequence hash",
            &["probe.reopen_compared", "probe.objop", "probe.objop_twin_content", "probe.commit_failed"]),
        "C04" => s("C04", "exploration", 150000, 2250000, &["probe.read_checked_exact", "probe.read_checked_array_conflict"], &[],
            "documents from the generator family submitted in reachable states; read compared with the submitted document after every update; non-trivial = at least one update was checked; distinct = distinct op sequence hash",
            &["probe.read_checked_exact", "probe.read_checked_array_conflict", "probe.update_twice", "probe.commit_nothing_staged"]),
        "C05" => s("C05", "exploration", 20000, 600000, &["probe.tree_prefix_checked"], &["probe.tree_checked"],
            "every object of every replica at every sync point and after every staging op: winner/conflicts vs the reference rule on the recorded revision set, plus re-insertion in ALL insertion orders for trees of up to 5 revisions (every third step) and in reverse + seeded permutations for larger ones, with a check after every prefix; non-trivial = at least one tree with >= 2 revisions was permuted; distinct = distinct op sequence hash",
            &["probe.tree_prefix_checked", "probe.tree_all_orders", "probe.tree_synthetic", "probe.tree_synthetic_child_of_marker", "probe.tree_prefix_dangling_parent", "probe.conflict_at_sync", "probe.three_live_leaves", "probe.revision_index_ge_10", "probe.resolve"]),
        "C11" => s("C11", "exploration", 100000, 1500000, &["probe.write_checked"], &["probe.delivered"],
            "every write of every replica checked against its name; all items of all replicas compared byte-wise after every op; non-trivial = items were written and also travelled between replicas; distinct = distinct op sequence hash",
            &["probe.write_checked", "probe.meld_items", "probe.delivered", "probe.deliver_duplicate", "enum.damage_walk_steps", "enum.damage_walk_melds"]),
        "C12" => s("C12", "exploration", 100000, 1500000, &["probe.commit_ok", "probe.snapshot", "probe.meld_items"], &[],
            "read() compared before/after commit, snapshot, meld and idle refresh/reload in reachable states; non-trivial = at least one such operation ran; distinct = distinct op sequence hash",
            &["probe.commit_with_array_conflict", "probe.commit_with_object_conflict", "probe.snapshot_staged_something", "probe.meld_items"]),
        "C13" => s("C13", "exploration", 60000, 1500000, &["probe.block_read_back"], &["probe.commit_ok"],
            "commit graph monitors around every commit and at every sync point; non-trivial = blocks were read back and compared with their files; distinct = distinct op sequence hash",
            &["probe.block_read_back", "probe.checkpoint_multihead", "probe.block_index_ge_10", "probe.graph_checked_in_time_travel", "probe.reload_until_redundant_anchors", "probe.reload_until_foreign_heads"]),
        "C14" => s("C14", "exploration", 14000, 300000, &["probe.reload_until"], &[],
            "reload_until / new_until for heads the replica had before (sampled inside the run; at the end of each history every replica travels to each of its checkpoints and back — every head set the replica ever had when there are at most 10, else 10 of them; then a walk of up to 8 consecutive travels without reload in between, through head sets of all replicas that are complete in this replica's storage, a quarter of them with a redundant ancestor added to the request), compared with the recorded checkpoint and the reference restricted to ancestors; non-trivial = at least one time travel executed; distinct = distinct op sequence hash",
            &["probe.reload_until", "probe.reload_until_multihead", "probe.history_rev_checked", "enum.c14_checkpoint_forks", "enum.c14_multihead_forks", "enum.c14_walk_steps", "probe.reload_until_foreign_heads", "probe.reload_until_redundant_anchors", "probe.reload_until_consecutive", "probe.commit_in_the_past", "probe.reload_until_unknown_anchor"]),
        "C15" => s("C15", "exploration", 100000, 1500000, &["probe.unstage_compared", "probe.stage_roundtrip", "probe.refresh_with_stage"], &[],
            "staged operations of any mix followed by unstage / export+replay / commit / refused refresh; non-trivial = at least one of those comparisons ran; distinct = distinct op sequence hash",
            &["probe.unstage_compared", "probe.stage_roundtrip", "probe.refresh_with_stage", "probe.objop", "probe.resolve", "probe.commit_failed", "probe.retry_after_failed_commit", "probe.replayed_stage_objects_already_durable"]),
        "C16" => s("C16", "exploration", 60000, 900000, &["probe.array_revision_reconstructed"], &[],
            "chains of successive versions of flattened arrays with commits, snapshots and reopen under drawn cache capacities; non-trivial = stored revisions were reconstructed by the reference and compared with the submitted order; distinct = distinct op sequence hash",
            &["probe.array_revision_reconstructed", "probe.snapshot_staged_something"]),
        "C19" => s("C19", "exploration", 30000, 900000, &["probe.identifier_checked"], &["probe.order_pair_checked"],
            "every revision identifier of every tree at every sync point and after staging ops: print/parse, construction rule, content digest, order axioms; non-trivial = identifiers and pairs were checked; distinct = distinct op sequence hash",
            &["probe.identifier_checked", "probe.identifier_content_checked", "probe.order_triple_checked", "probe.identifier_index_ge_10", "probe.identifier_index_ge_100", "probe.same_edit", "probe.same_edit_two_heads"]),
        "C08" => s("C08", "exploration", 100000, 1500000, &["probe.commit_with_array_conflict", "probe.commit_with_object_conflict", "probe.resolve", "probe.snapshot"], &[],
            "every public call under catch_unwind with the lock shim; non-trivial = operations ran in conflicted states; distinct = distinct op sequence hash",
            &["probe.commit_with_array_conflict", "probe.commit_with_object_conflict", "probe.resolve_array", "probe.refresh_with_stage", "probe.reload_until"]),
        "C07" => s("C07", "exploration", 30000, 600000, &["probe.resolve"], &[],
            "conflicted states reached by concurrent edits; resolve_as for a seeded leaf, and for histories that END in a conflicted state one fork per (object, live leaf) — every choosable leaf — with commit and Converge; propagation by Converge; non-trivial = at least one resolution ran; distinct = distinct op sequence hash",
            &["probe.resolve", "probe.resolve_array", "probe.resolve_to_deletion", "probe.resolve_3plus_leaves", "probe.converge", "enum.c07_leaf_forks"]),
        "C06" => s("C06", "exploration", 100000, 1500000, &["probe.array_merge_checked"], &[],
            "concurrent array edits on 2-4 replicas followed by synchronisation; constraints (1)-(5) of DESIGN 5.6 evaluated on read; non-trivial = at least one array with >= 2 live leaves was checked; distinct = distinct op sequence hash",
            &["probe.array_merge_checked"]),
        "C09" => s("C09", "fault_enumeration", 15000, 375000, &["enum.crash_points"], &["enum.write_failures"],
            "per generated history, for (up to 6) commit and meld operations in it: EVERY storage-write boundary is a crash point (snapshot of the durable map, reopened; for commits also restarted, the same document submitted again and committed), and EVERY write position fails once, 2x and 3x in a row, plus a full disk, followed by retries; histories are sampled, boundaries and positions are enumerated completely; non-trivial = a history in which at least one target was enumerated; distinct = distinct op sequence hash",
            &["enum.commit_targets", "enum.meld_targets", "enum.crash_points", "enum.crash_redo", "enum.crash_redo_peer", "enum.write_failures", "enum.retries_completed", "fault.write_err", "fault.disk_full", "fault.crash_snapshot"]),
        "C10" => s("C10", "fault_enumeration", 20000, 300000, &["enum.damage_cases"], &["probe.damage_open_ok"],
            "per generated history, on the richest store: for EVERY item bit flips at first/last/8 seeded positions (thorough: every byte), truncation to 0/1/mid/len-1 (thorough: every length), deletion, all pairs of deletions (thorough: triples), and a fixed list of junk-file classes; at rest then open, in transit then refresh, and (packs only) under an already open replica followed by get_value of every revision; non-trivial = a history whose damage cases were enumerated and at least one damaged store opened; distinct = distinct op sequence hash",
            &["enum.damage_cases", "enum.damage_cases_in_transit", "enum.damage_cases_live", "enum.damage_walk_steps", "enum.damage_walk_melds", "probe.damage_walk_clean_compared", "fault.walk_delete", "fault.walk_restore", "probe.damage_live_read_refused", "probe.damage_open_ok", "probe.damage_open_err", "probe.damage_value_checked", "fault.damage_bitflip", "fault.damage_truncate", "fault.damage_delete", "fault.damage_junk"]),
        "C17" => s("C17", "exploration", 6000, 90000, &["probe.backend_calls"], &["contract.write"],
            "run k uses backend k mod 12 of {memory, directory, SQLite file, SQLite in-memory} x {plain, Deflate, Brotli}: (1) a replica history over SimAdapter with the real backend behind it, every read/list answered by the backend and compared with the first-write-wins model, persistent backends re-constructed on restart; (2) a seeded write/read/ranged-read/list/reopen sequence with arbitrary bytes against the same model; non-trivial = both parts ran; distinct = distinct op sequence hash",
            &["contract.write", "contract.write_via_second_handle", "contract.write_refused", "contract.second_write", "contract.read_range", "contract.list", "contract.read_missing", "fault.backend_reopen", "probe.backend_calls", "probe.backend.dir", "probe.backend.sqlite", "probe.backend.sqlite+brotli", "probe.backend.memory+flate"]),
        "C18" => s("C18", "exploration", 6000, 90000, &["enum.config_variants"], &[],
            "per generated history the same op file is re-executed under >= 4 other hash seeds, 3 listing permutations, 3 parallel-loop orders, a seeded half of the 4x4 cache-capacity grid and one all-varied configuration; semantic digests of all replicas compared after every op; non-trivial = a history whose matrix was executed; distinct = distinct op sequence hash",
            &["enum.config_variants", "fault.config_hash", "fault.config_listing", "fault.config_parallel-loop", "fault.config_cache", "probe.conflict_at_sync"]),
        _ => return None,
    })
}

// ---------------------------------------------------------------- known findings

#[derive(Clone, Debug)]
pub struct Finding {
    pub prop: String,
    pub class: String,
    pub text: String,
}

pub fn load_findings() -> Vec<Finding> {
    let path = format!("{}/known_findings.txt", verif_home());
    let mut out = vec![];
    if let Ok(s) = std::fs::read_to_string(path) {
        for l in s.lines() {
            let l = l.trim();
            if let Some(rest) = l.strip_prefix("finding:") {
                let mut prop = String::new();
                let mut class = String::new();
                let mut text = vec![];
                for tok in rest.split_whitespace() {
                    if let Some(p) = tok.strip_prefix("property=") {
                        prop = p.to_string();
                    } else if let Some(c) = tok.strip_prefix("class=") {
                        class = c.to_string();
                    } else {
                        text.push(tok);
                    }
                }
                if !prop.is_empty() && !class.is_empty() {
                    out.push(Finding { prop, class, text: text.join(" ") });
                }
            }
        }
    }
    out
}

pub fn finding_matches(f: &Finding, v: &Violation) -> bool {
    f.prop == v.prop && (f.class == v.class || (f.class.ends_with('*') && v.class.starts_with(f.class.trim_end_matches('*'))))
}

// ---------------------------------------------------------------- worker

fn op_samples(ops: &[Op]) -> Value {
    Value::from(ops.iter().take(40).map(|o| o.brief()).collect::<Vec<_>>())
}

fn is_nontrivial(sp: &PropSpec, r: &RunResult) -> bool {
    let g = |k: &str| r.stats.get(k).copied().unwrap_or(0) > 0;
    (sp.nontrivial_any.is_empty() || sp.nontrivial_any.iter().any(|k| g(k))) && sp.nontrivial_all.iter().all(|k| g(k))
}

pub fn cmd_worker(args: &[String]) -> i32 {
    let prop = args[0].clone();
    let base: u64 = arg(args, "--seed").and_then(|s| s.parse().ok()).unwrap_or(DEFAULT_SEED);
    let from: u64 = arg(args, "--from").and_then(|s| s.parse().ok()).unwrap_or(0);
    let stride: u64 = arg(args, "--stride").and_then(|s| s.parse().ok()).unwrap_or(1);
    let runs: u64 = arg(args, "--runs").and_then(|s| s.parse().ok()).unwrap_or(100);
    let deadline_ms: u64 = arg(args, "--deadline-ms").and_then(|s| s.parse().ok()).unwrap_or(600_000);
    let out = arg(args, "--out").unwrap_or("/dev/stdout").to_string();
    let sp = match spec(&prop) {
        Some(s) => s,
        None => {
            eprintln!("unknown property {}", prop);
            return 2;
        }
    };
    let findings = load_findings();
    let t0 = Instant::now();
    let mut stats: BTreeMap<String, u64> = BTreeMap::new();
    let mut states: BTreeSet<u64> = BTreeSet::new();
    let mut nontrivial: BTreeSet<u64> = BTreeSet::new();
    let mut inconclusive: BTreeMap<String, u64> = BTreeMap::new();
    let mut samples: Vec<Value> = vec![];
    let mut violations: Vec<Value> = vec![];
    let mut known: BTreeMap<String, u64> = BTreeMap::new();
    let (mut n_runs, mut n_ops, mut n_steps) = (0u64, 0u64, 0u64);
    let mut k = from;
    // Watchdog: a run that does not return (a stall inside the scheduler library, or a loop in the code
    // under test that takes no lock) must not hang the check. The main loop publishes its results so far
    // about once a second; a real thread notices when no run has finished for STALL_S seconds, writes that
    // snapshot with the stalled run recorded, and ends the worker.
    let stall_s: u64 = std::env::var("VERIF_STALL_S").ok().and_then(|s| s.parse().ok()).unwrap_or(90);
    let snapshot: std::sync::Arc<std::sync::Mutex<(String, u64, Instant)>> = std::sync::Arc::new(std::sync::Mutex::new((String::new(), 0, Instant::now())));
    {
        let (snapshot, out, prop) = (snapshot.clone(), out.clone(), prop.clone());
        std::thread::spawn(move || loop {
            std::thread::sleep(std::time::Duration::from_secs(2));
            let g = snapshot.lock().unwrap_or_else(|e| e.into_inner());
            if g.2.elapsed().as_secs() > stall_s {
                let mut v: Value = serde_json::from_str(&g.0).unwrap_or_else(|_| json!({"runs": 0, "ops": 0, "steps": 0, "stats": {}, "states": [], "nontrivial": [], "inconclusive": {}, "samples": [], "violations": [], "known": {}, "wall_ms": 0}));
                v["stalled"] = json!({"property": prop, "run_seed": g.1, "seconds": stall_s});
                let _ = std::fs::write(&out, serde_json::to_string(&v).unwrap());
                let _ = std::fs::remove_dir_all(crate::backends::scratch_root());
                std::process::exit(0);
            }
        });
    }
    let mut last_snapshot = Instant::now();
    while k < runs {
        if t0.elapsed().as_millis() as u64 > deadline_ms {
            break;
        }
        let seed = run_seed(base, &prop, k);
        {
            let mut g = snapshot.lock().unwrap_or_else(|e| e.into_inner());
            g.1 = seed;
            g.2 = Instant::now();
            if g.0.is_empty() || last_snapshot.elapsed().as_millis() > 1500 {
                g.0 = serde_json::to_string(&json!({
                    "runs": n_runs, "ops": n_ops, "steps": n_steps, "stats": stats,
                    "states": states.iter().map(|x| format!("{:x}", x)).collect::<Vec<_>>(),
                    "nontrivial": nontrivial.iter().map(|x| format!("{:x}", x)).collect::<Vec<_>>(),
                    "inconclusive": inconclusive, "samples": samples, "violations": violations, "known": known,
                    "wall_ms": t0.elapsed().as_millis() as u64,
                })).unwrap();
                last_snapshot = Instant::now();
            }
        }
        if prop == "C08" {
            // C08: a run that kills the worker process (stack overflow, abort) is named by this marker
            let _ = std::fs::write(format!("{}.cur", out), seed.to_string());
        }
        let r = runner::generate(&prop, seed);
        k += stride;
        if let Some(v) = &r.violation {
            if let Some(f) = findings.iter().find(|f| finding_matches(f, v)) {
                *known.entry(format!("{} {}", f.class, f.text)).or_insert(0) += 1;
                continue; // a run that meets a listed finding is not counted as coverage
            }
            // minimise, write the replay file (the watchdog is told to be patient meanwhile)
            snapshot.lock().unwrap_or_else(|e| e.into_inner()).2 = Instant::now() + std::time::Duration::from_secs(900);
            let (cfg2, ops2, tried) = runner::shrink(&r.cfg, &r.ops, &v.class, 600);
            let rr = runner::replay(&cfg2, &ops2);
            let (cfg2, ops2, v2) = match rr.violation {
                Some(v2) if v2.class == v.class => (cfg2, ops2, v2),
                _ => (r.cfg.clone(), r.ops.clone(), v.clone()),
            };
            let path = format!("{}/replays/{}-{}-{}-{}.json", verif_home(), prop, crate::seam::FLAVOUR, base, k - stride);
            let _ = std::fs::create_dir_all(format!("{}/replays", verif_home()));
            let file = runner::replay_file_json(&cfg2, &ops2, &v2, &r.stats, json!({"original_ops": r.ops.len(), "shrink_candidates_tried": tried,
                "process_history": {"property": prop, "base": base, "from": from, "stride": stride, "before_k": k - stride, "run_seed": seed}}));
            std::fs::write(&path, serde_json::to_string_pretty(&file).unwrap()).expect("cannot write replay file");
            violations.push(json!({"replay": path, "class": v2.class, "detail": v2.detail, "check": v2.check, "run_seed": seed}));
            samples.push(json!({"run_seed": seed, "violating": true, "config": cfg2.to_json(), "ops": op_samples(&ops2)}));
            break;
        }
        n_runs += 1;
        n_ops += r.ops.len() as u64;
        n_steps += r.steps as u64;
        if let Some(s) = &r.inconclusive {
            let key: String = s.split(" [").next().unwrap_or(s).chars().take(100).collect();
            *inconclusive.entry(key).or_insert(0) += 1;
        }
        for (key, v) in &r.stats {
            *stats.entry(key.clone()).or_insert(0) += v;
        }
        states.extend(r.states.iter().copied());
        if is_nontrivial(&sp, &r) && r.inconclusive.is_none() {
            nontrivial.insert(r.trace_hash);
            if samples.len() < 2 {
                samples.push(json!({"run_seed": seed, "config": r.cfg.to_json(), "ops": op_samples(&r.ops)}));
            }
        }
    }
    let res = json!({
        "runs": n_runs, "ops": n_ops, "steps": n_steps, "stats": stats,
        "states": states.iter().map(|x| format!("{:x}", x)).collect::<Vec<_>>(),
        "nontrivial": nontrivial.iter().map(|x| format!("{:x}", x)).collect::<Vec<_>>(),
        "inconclusive": inconclusive, "samples": samples, "violations": violations, "known": known,
        "wall_ms": t0.elapsed().as_millis() as u64,
    });
    std::fs::write(&out, serde_json::to_string(&res).unwrap()).expect("cannot write worker result");
    let _ = std::fs::remove_dir_all(crate::backends::scratch_root());
    0
}

// ---------------------------------------------------------------- check (parent)

pub fn cmd_check(args: &[String]) -> i32 {
    let prop = match args.first() {
        Some(p) => p.clone(),
        None => return 2,
    };
    let sp = match spec(&prop) {
        Some(s) => s,
        None => {
            eprintln!("unknown property {}", prop);
            return 2;
        }
    };
    let tier = arg(args, "--tier").map(|s| s.to_string()).or_else(|| std::env::var("VERIF_TIER").ok()).unwrap_or_else(|| "quick".into());
    let tier = if tier == "thorough" { "thorough" } else { "quick" };
    let seed: u64 = arg(args, "--seed").and_then(|s| s.parse().ok()).or_else(|| std::env::var("VERIF_SEED").ok().and_then(|s| s.parse().ok())).unwrap_or(DEFAULT_SEED);
    let runs: u64 = arg(args, "--runs").and_then(|s| s.parse().ok()).unwrap_or(if tier == "quick" { sp.quick_runs } else { sp.thorough_runs });
    let jobs: u64 = arg(args, "--jobs").and_then(|s| s.parse().ok()).unwrap_or_else(|| std::thread::available_parallelism().map(|n| n.get() as u64).unwrap_or(4).min(16));
    let deadline_ms: u64 = arg(args, "--deadline-ms").and_then(|s| s.parse().ok()).or_else(|| std::env::var("VERIF_DEADLINE_MS").ok().and_then(|s| s.parse().ok())).unwrap_or(if tier == "quick" { if cfg!(feature = "sched") { 40_000 } else { 60_000 } } else { 1_500_000 });
    let t0 = Instant::now();
    let exe = std::env::current_exe().expect("current_exe");
    let work = format!("{}/.work/{}", verif_home(), std::process::id());
    std::fs::create_dir_all(&work).expect("cannot create work dir");
    println!("meldasim check {} tier={} seed={} runs={} jobs={} build={}", prop, tier, seed, runs, jobs, crate::seam::FLAVOUR);
    let mut children = vec![];
    for i in 0..jobs {
        let out = format!("{}/w{}.json", work, i);
        let c = std::process::Command::new(&exe)
            .args(["worker", &prop, "--seed", &seed.to_string(), "--from", &i.to_string(), "--stride", &jobs.to_string(), "--runs", &runs.to_string(), "--deadline-ms", &deadline_ms.to_string(), "--out", &out])
            .spawn()
            .expect("cannot spawn worker");
        children.push((c, out));
    }
    let mut merged: Map<String, Value> = Map::new();
    let mut stats: BTreeMap<String, u64> = BTreeMap::new();
    let mut states: BTreeSet<String> = BTreeSet::new();
    let mut nontrivial: BTreeSet<String> = BTreeSet::new();
    let mut inconclusive: BTreeMap<String, u64> = BTreeMap::new();
    let mut known: BTreeMap<String, u64> = BTreeMap::new();
    let mut samples: Vec<Value> = vec![];
    let mut violations: Vec<Value> = vec![];
    let (mut n_runs, mut n_ops, mut n_steps) = (0u64, 0u64, 0u64);
    let mut harness_error = false;
    let hard_limit = std::time::Duration::from_millis(deadline_ms) + std::time::Duration::from_secs(1500);
    let mut stalled: Vec<Value> = vec![];
    for (mut c, out) in children {
        let st = loop {
            match c.try_wait().expect("wait") {
                Some(st) => break st,
                None if t0.elapsed() > hard_limit => {
                    let _ = c.kill();
                    eprintln!("HARNESS-ERROR worker did not end within the hard limit and was killed");
                    harness_error = true;
                    break c.wait().expect("wait");
                }
                None => std::thread::sleep(std::time::Duration::from_millis(50)),
            }
        };
        let txt = std::fs::read_to_string(&out).unwrap_or_default();
        let v: Value = match serde_json::from_str(&txt) {
            Ok(v) => v,
            Err(_) => {
                // C08: the worker process itself died (signal) inside a run. That is what the property forbids
                // ("never abort the calling thread"); the run is re-executed with a journal in a child process
                // and reported with a replay file that kills a fresh process in the same way.
                let cur = std::fs::read_to_string(format!("{}.cur", out)).ok().and_then(|t| t.trim().parse::<u64>().ok());
                if let (true, None, Some(run_seed)) = (prop == "C08", st.code(), cur) {
                    if violations.iter().any(|v: &Value| v["check"] == "process-death") {
                        continue; // one report per batch is enough
                    }
                    if let Some(v) = process_death_report(&exe, &prop, seed, run_seed) {
                        violations.push(v);
                        continue;
                    }
                }
                eprintln!("HARNESS-ERROR worker produced no result (exit {:?})", st.code());
                harness_error = true;
                continue;
            }
        };
        if !v["stalled"].is_null() {
            stalled.push(v["stalled"].clone());
        }
        n_runs += v["runs"].as_u64().unwrap_or(0);
        n_ops += v["ops"].as_u64().unwrap_or(0);
        n_steps += v["steps"].as_u64().unwrap_or(0);
        for (k, x) in v["stats"].as_object().unwrap() {
            *stats.entry(k.clone()).or_insert(0) += x.as_u64().unwrap_or(0);
        }
        for x in v["states"].as_array().unwrap() {
            states.insert(x.as_str().unwrap().to_string());
        }
        for x in v["nontrivial"].as_array().unwrap() {
            nontrivial.insert(x.as_str().unwrap().to_string());
        }
        for (k, x) in v["inconclusive"].as_object().unwrap() {
            *inconclusive.entry(k.clone()).or_insert(0) += x.as_u64().unwrap_or(0);
        }
        for (k, x) in v["known"].as_object().unwrap() {
            *known.entry(k.clone()).or_insert(0) += x.as_u64().unwrap_or(0);
        }
        if samples.len() < 3 {
            samples.extend(v["samples"].as_array().unwrap().iter().take(1).cloned());
        }
        violations.extend(v["violations"].as_array().unwrap().iter().cloned());
    }
    let _ = std::fs::remove_dir_all(&work);
    let _ = std::fs::remove_dir_all(crate::backends::scratch_root());
    // regression corpus: replay files of repaired defects of this property must stay clean
    let mut regress_run = 0u64;
    if let Ok(rd) = std::fs::read_dir(format!("{}/regress", verif_home())) {
        let mut files: Vec<String> = rd.filter_map(|e| e.ok()).map(|e| e.path().to_string_lossy().to_string()).filter(|p| p.ends_with(".json")).collect();
        files.sort();
        for f in files {
            let is_mine = std::fs::read_to_string(&f).ok().and_then(|t| serde_json::from_str::<Value>(&t).ok()).map_or(false, |v| v["property"].as_str() == Some(prop.as_str()));
            if !is_mine {
                continue;
            }
            regress_run += 1;
            let o = std::process::Command::new(&exe).args(["replay", &f]).output().expect("replay");
            let so = String::from_utf8_lossy(&o.stdout).to_string();
            match o.status.code() {
                Some(0) => {}
                Some(1) => {
                    let class = so.lines().find(|l| l.starts_with("class=")).and_then(|l| l.split_whitespace().next()).unwrap_or("class=?").trim_start_matches("class=").to_string();
                    let detail = so.lines().skip_while(|l| !l.starts_with("class=")).skip(1).collect::<Vec<_>>().join("\n");
                    violations.push(json!({"replay": f, "class": class, "detail": format!("a repaired defect is back (regression corpus): {}", detail), "check": "regression-corpus", "run_seed": 0}));
                }
                _ => {
                    eprintln!("HARNESS-ERROR regression replay {} failed to run\n{}", f, so);
                    harness_error = true;
                }
            }
        }
    }
    // every reported violation must reproduce from its replay file in a fresh process
    let mut confirmed: Vec<Value> = vec![];
    for v in &violations {
        let path = v["replay"].as_str().unwrap();
        let o = std::process::Command::new(&exe).args(["replay", path]).output().expect("replay");
        let so = String::from_utf8_lossy(&o.stdout).to_string();
        let want = format!("class={}", v["class"].as_str().unwrap());
        if o.status.code() == Some(1) && so.contains(&want) {
            confirmed.push(v.clone());
        } else if let Some(mode) = ["with-history", "with-history-regenerate"].iter().find(|mode| {
            // the violation may depend on what the worker process executed before (process-wide
            // state in the library): replay the worker's preceding runs first, then the file
            let o = std::process::Command::new(&exe).args(["replay", path, "--mode", mode]).output().expect("replay");
            o.status.code() == Some(1) && String::from_utf8_lossy(&o.stdout).contains(&want)
        }) {
            if let Ok((_, _, mut file)) = runner::load_replay(path) {
                file["replay_mode"] = json!(mode);
                let _ = std::fs::write(path, serde_json::to_string_pretty(&file).unwrap());
            }
            let mut v = v.clone();
            v["detail"] = json!(format!("[depends on process-wide state: a fresh process replays it only after the worker's preceding runs, which the replay file records (replay_mode={})] {}", mode, v["detail"].as_str().unwrap_or("")));
            confirmed.push(v);
        } else {
            eprintln!("HARNESS-ERROR replay of {} did not reproduce the violation (exit {:?})\n{}", path, o.status.code(), so);
            harness_error = true;
        }
    }
    for st in &stalled {
        // A run that never returned and was not reported by the lock shims / the scheduler's deadlock
        // detection. Under C08 in the sequential build that is exactly what the property forbids and what
        // only this watchdog can see; elsewhere it is recorded and the rest of the worker's batch is lost.
        println!("WATCHDOG a run did not return within {} s: property={} run_seed={}", st["seconds"], st["property"], st["run_seed"]);
        *inconclusive.entry("run did not return (watchdog)".to_string()).or_insert(0) += 1;
        if prop == "C08" && crate::seam::FLAVOUR == "seq" {
            eprintln!("HARNESS-ERROR C08: a run stalled without a lock being involved; reproduce with `meldasim one C08 {}`", st["run_seed"]);
            harness_error = true;
        }
    }
    let wall = t0.elapsed().as_secs_f64();
    // evidence
    let fired: Map<String, Value> = stats.iter().filter(|(k, _)| k.starts_with("fault.") || k.starts_with("seam.")).map(|(k, v)| (k.clone(), json!(v))).collect();
    let probes: Map<String, Value> = stats.iter().filter(|(k, _)| k.starts_with("probe.")).map(|(k, v)| (k.clone(), json!(v))).collect();
    let opmix: Map<String, Value> = stats.iter().filter(|(k, _)| k.starts_with("op.")).map(|(k, v)| (k.clone(), json!(v))).collect();
    let mut zero = vec![];
    for p in sp.reach {
        if stats.get(*p).copied().unwrap_or(0) == 0 {
            println!("WARNING reach-probe {}=0", p);
            zero.push(p.to_string());
        }
    }
    let findings: Vec<Finding> = load_findings().into_iter().filter(|f| f.prop == prop).collect();
    for f in &findings {
        let hits = known.iter().filter(|(k, _)| k.starts_with(&f.class)).map(|(_, v)| *v).sum::<u64>();
        println!("KNOWN-FINDING: property={} {} [class={} met in {} run(s) of this batch; those runs are not counted as coverage]", prop, f.text, f.class, hits);
    }
    merged.insert("property_id".into(), json!(prop));
    merged.insert("tier".into(), json!(tier));
    merged.insert("seed".into(), json!(seed));
    merged.insert("level".into(), json!(sp.level));
    merged.insert("wall_s".into(), json!(wall));
    merged.insert("violations".into(), json!(confirmed.len()));
    merged.insert("coverage".into(), json!({
        "evaluations": n_runs,
        "distinct_nontrivial": nontrivial.len(),
        "rule": sp.rule,
        "samples": samples,
        "ops_executed": n_ops,
        "logical_steps": n_steps,
        "simulated_time": "logical only: the system under test has no clock or timer; time is the global event sequence number (logical_steps)",
        "runs_per_hour": if wall > 0.0 { (n_runs as f64 / wall * 3600.0) as u64 } else { 0 },
        "seeds": format!("run k uses splitmix(VERIF_SEED ^ f(property) ^ k*phi), k in 0..{}", runs),
        "distinct_states": states.len(),
        "distinct_states_measure": "distinct semantic state digests (objects, winners, conflicts, document, staging flag) observed at sync points",
        "faults_fired": fired,
        "reach_probes": probes,
        "reach_probes_zero": zero,
        "op_mix": opmix,
        "inconclusive_runs": inconclusive,
        "known_finding_runs": known,
        "enumerated": stats.iter().filter(|(k, _)| k.starts_with("enum.")).map(|(k, v)| (k.clone(), json!(v))).collect::<Map<String, Value>>(),
        "regression_replays_run": regress_run,
        "components": components(),
        "exhaustive": false,
    }));
    merged.insert("assumptions".into(), json!(assumptions()));
    let suffix = arg(args, "--evidence-suffix").unwrap_or("");
    let epath = format!("{}/evidence/{}{}.json", verif_home(), prop, suffix);
    let _ = std::fs::create_dir_all(format!("{}/evidence", verif_home()));
    std::fs::write(&epath, serde_json::to_string_pretty(&Value::Object(merged)).unwrap()).expect("cannot write evidence");
    println!("runs={} ops={} nontrivial_distinct={} states={} inconclusive={} wall={:.1}s evidence={}", n_runs, n_ops, nontrivial.len(), states.len(), inconclusive.values().sum::<u64>(), wall, epath);
    for (k, v) in &inconclusive {
        println!("  inconclusive x{}: {}", v, k);
    }
    if harness_error {
        return 2;
    }
    if !confirmed.is_empty() {
        for v in &confirmed {
            println!("VIOLATION property={} replay={}", prop, v["replay"].as_str().unwrap());
            println!("  class={} check={}\n  {}", v["class"].as_str().unwrap(), v["check"].as_str().unwrap(), v["detail"].as_str().unwrap().replace('\n', "\n  "));
        }
        return 1;
    }
    0
}

pub fn components() -> Value {
    json!({
        "real_code": ["libmelda Melda / DataStorage / RevisionTree / Revision / utils (compiled from /repo working tree)", "serde_json, sha2, lru, regex, yavomrs"],
        "stubs": [
            "storage backend: SimAdapter (in-memory map implementing trait Adapter, with fault plan)",
            "file-sync transport: SyncNet inside the world (copies single items between stores)",
            "rayon: sequential seeded-order shim (seq build) / shuttle threads (sched build)",
            "std::sync Mutex/RwLock: observation shims (seq) / shuttle primitives (sched)",
            "HashMap/HashSet hasher keys: seeded per run",
        ],
        "build": crate::seam::FLAVOUR,
    })
}

pub fn assumptions() -> Vec<&'static str> {
    vec![
        "SHA-256 is collision free and the 28-bit parent tail of revision identifiers does not collide within a run",
        "each write through the Adapter is atomic (present completely or not at all); items that become visible torn and are completed later are modelled as transit/damage faults (C02 torn-arrival walk, C10 damage walk), not as a write mode of commit",
        "the sequential rayon shim executes every parallel loop in a seeded order on one thread: a legal schedule of any pool size, not all of them",
        "a clean batch is evidence over the sampled histories, not a proof",
    ]
}

// ---------------------------------------------------------------- replay / one / detlog

/// `meldasim journal <Cxx> <run-seed> <file>`: one generated run with the process-death journal switched on.
pub fn cmd_journal(args: &[String]) -> i32 {
    let f = std::fs::File::create(&args[2]).expect("journal file");
    *runner::JOURNAL.lock().unwrap() = Some(f);
    let _ = runner::generate(&args[0], args[1].parse().unwrap());
    0
}

fn dies(exe: &std::path::Path, file: &str) -> bool {
    let o = std::process::Command::new(exe).args(["replay", file, "--mode", "inner"]).output().expect("replay");
    o.status.code().is_none()
}

fn process_death_report(exe: &std::path::Path, prop: &str, base: u64, run_seed: u64) -> Option<Value> {
    let _ = std::fs::create_dir_all(format!("{}/replays", verif_home()));
    let jpath = format!("{}/replays/{}-{}-{}-death.journal", verif_home(), prop, crate::seam::FLAVOUR, run_seed);
    let o = std::process::Command::new(exe).args(["journal", prop, &run_seed.to_string(), &jpath]).output().ok()?;
    let txt = std::fs::read_to_string(&jpath).unwrap_or_default();
    let _ = std::fs::remove_file(&jpath);
    if o.status.code().is_some() {
        return None; // the run alone does not kill a fresh process
    }
    let mut lines = txt.lines().filter_map(|l| serde_json::from_str::<Value>(l).ok());
    let cfg = crate::world::RunCfg::from_json(&lines.next()?).ok()?;
    let mut ops: Vec<Op> = lines.filter_map(|v| Op::from_json(&v).ok()).collect();
    let err = String::from_utf8_lossy(&o.stderr).lines().filter(|l| l.contains("overflow") || l.contains("abort") || l.contains("fatal")).take(2).collect::<Vec<_>>().join(" / ");
    let path = format!("{}/replays/{}-{}-{}-death.json", verif_home(), prop, crate::seam::FLAVOUR, base);
    let write = |ops: &[Op]| {
        let last = ops.last().map(|o| o.name()).unwrap_or("?");
        let v = Violation { prop: prop.to_string(), check: "process-death".into(), class: format!("abort:process-died:{}", last), step: ops.len(),
            detail: format!("the process executing this history is killed by a signal during or right after op #{} ({}): {}", ops.len(), last, if err.is_empty() { "no message" } else { &err }) };
        let mut file = runner::replay_file_json(&cfg, ops, &v, &BTreeMap::new(), json!({"original_ops": ops.len(), "run_seed": run_seed}));
        file["process_death"] = json!(true);
        std::fs::write(&path, serde_json::to_string_pretty(&file).unwrap()).expect("cannot write replay file");
        v
    };
    let original = ops.len();
    write(&ops);
    if !dies(exe, &path) {
        // the fatal call was a read made by the generator while it chose the next op: read everywhere
        for r in 0..cfg.n_replicas {
            ops.push(Op::Read { r, what: 0 });
        }
        write(&ops);
        if !dies(exe, &path) {
            let _ = std::fs::remove_file(&path);
            return None;
        }
    }
    // minimise: drop chunks while a fresh process still dies
    let (mut chunk, mut tried) = ((ops.len() / 2).max(1), 0);
    loop {
        let mut i = 0;
        let mut progress = false;
        while i < ops.len().saturating_sub(1) && tried < 120 {
            let end = (i + chunk).min(ops.len() - 1);
            let mut cand = ops.clone();
            cand.drain(i..end);
            write(&cand);
            tried += 1;
            if dies(exe, &path) {
                ops = cand;
                progress = true;
            } else {
                i = end;
            }
        }
        if tried >= 120 || (chunk == 1 && !progress) {
            break;
        }
        if chunk > 1 {
            chunk /= 2;
        }
    }
    let v = write(&ops);
    let mut file: Value = serde_json::from_str(&std::fs::read_to_string(&path).ok()?).ok()?;
    file["extra"]["original_ops"] = json!(original);
    file["extra"]["shrink_candidates_tried"] = json!(tried);
    std::fs::write(&path, serde_json::to_string_pretty(&file).unwrap()).ok()?;
    Some(json!({"replay": path, "class": v.class, "detail": v.detail, "check": v.check, "run_seed": run_seed}))
}

pub fn cmd_replay(args: &[String]) -> i32 {
    let path = match args.first() {
        Some(p) => p,
        None => return 2,
    };
    let (cfg, ops, file) = match runner::load_replay(path) {
        Ok(x) => x,
        Err(e) => {
            eprintln!("HARNESS-ERROR {}", e);
            return 2;
        }
    };
    if file["run_config"]["build"].as_str().map_or(false, |b| b != crate::seam::FLAVOUR) {
        eprintln!("note: replay file was recorded with build {} and is replayed with build {}", file["run_config"]["build"], crate::seam::FLAVOUR);
    }
    let mode = arg(args, "--mode").map(|s| s.to_string()).or_else(|| file["replay_mode"].as_str().map(|s| s.to_string())).unwrap_or_default();
    if file["process_death"] == json!(true) && mode != "inner" {
        // the recorded violation is the death of the process: replay in a child and look at how it ends
        let exe = std::env::current_exe().expect("current_exe");
        let o = std::process::Command::new(&exe).args(["replay", path, "--mode", "inner"]).output().expect("replay");
        println!("replay {}: {} ops in a child process, which ended with {:?}", path, ops.len(), o.status);
        if args.iter().any(|a| a == "-v") {
            for (i, o) in ops.iter().enumerate() {
                println!("  {:3} {}", i + 1, o.brief());
            }
        }
        if o.status.code().is_none() {
            println!("VIOLATION property={} replay={}", file["property"].as_str().unwrap_or("?"), path);
            println!("class={} check=process-death step={}\n{}", file["violation"]["class"].as_str().unwrap_or("?"), ops.len(), file["violation"]["detail"].as_str().unwrap_or(""));
            return 1;
        }
        println!("no violation");
        return 0;
    }
    let mut regenerated = None;
    if mode.starts_with("with-history") {
        let h = &file["extra"]["process_history"];
        let (hp, base, from, stride, before) = (h["property"].as_str().unwrap_or(""), h["base"].as_u64().unwrap_or(0), h["from"].as_u64().unwrap_or(0), h["stride"].as_u64().unwrap_or(1).max(1), h["before_k"].as_u64().unwrap_or(0));
        let mut j = from;
        let mut n = 0;
        while j < before {
            let _ = runner::generate(hp, run_seed(base, hp, j));
            j += stride;
            n += 1;
        }
        println!("process history: {} preceding runs of the worker re-executed", n);
        if mode == "with-history-regenerate" {
            regenerated = Some(runner::generate(hp, h["run_seed"].as_u64().unwrap_or(0)));
        }
    }
    let r = match regenerated {
        Some(r) => r,
        None => runner::replay(&cfg, &ops),
    };
    println!("replay {}: {} ops, {} steps", path, ops.len(), r.steps);
    if args.iter().any(|a| a == "-v") {
        for (i, o) in ops.iter().enumerate() {
            println!("  {:3} {}", i + 1, o.brief());
        }
    }
    match r.violation {
        Some(v) => {
            println!("VIOLATION property={} replay={}", v.prop, path);
            println!("class={} check={} step={}\n{}", v.class, v.check, v.step, v.detail);
            1
        }
        None => {
            if let Some(s) = r.inconclusive {
                println!("inconclusive: {}", s);
            }
            println!("no violation");
            0
        }
    }
}

pub fn cmd_one(args: &[String]) -> i32 {
    let prop = &args[0];
    let seed: u64 = args[1].parse().unwrap();
    let r = runner::generate(prop, seed);
    for (i, o) in r.ops.iter().enumerate() {
        println!("  {:3} {}", i + 1, o.brief());
    }
    println!("cfg {}", r.cfg.to_json());
    println!("stats {:?}", r.stats);
    if let Some(s) = &r.inconclusive {
        println!("inconclusive: {}", s);
    }
    if let Some(v) = &r.violation {
        println!("violation class={} step={} {}", v.class, v.step, v.detail);
        return 1;
    }
    0
}

/// Event log for the determinism proof: one line per run with hashes of everything observable.
pub fn cmd_detlog(args: &[String]) -> i32 {
    let prop = args[0].clone();
    let base: u64 = arg(args, "--seed").and_then(|s| s.parse().ok()).unwrap_or(DEFAULT_SEED);
    let from: u64 = arg(args, "--from").and_then(|s| s.parse().ok()).unwrap_or(0);
    let runs: u64 = arg(args, "--runs").and_then(|s| s.parse().ok()).unwrap_or(100);
    for k in from..from + runs {
        let seed = run_seed(base, &prop, k);
        let r = runner::generate(&prop, seed);
        let st: u64 = r.states.iter().fold(0u64, |a, b| a.rotate_left(5) ^ b);
        println!("{} {} ops={} steps={} trace={:x} final={:x} states={:x} viol={} inc={}", k, seed, r.ops.len(), r.steps, r.trace_hash, r.final_digest_hash, st,
            r.violation.as_ref().map(|v| v.class.clone()).unwrap_or_default(), r.inconclusive.as_ref().map(|s| crate::rng::fnv64(s.as_bytes())).unwrap_or(0));
    }
    0
}

/// Generate-vs-replay equivalence: every generated run, replayed from its recorded op list in a
/// fresh world, must end in the same states and storage (hash of digests, items and state set).
pub fn cmd_selftest(args: &[String]) -> i32 {
    let prop = args[0].clone();
    let base: u64 = arg(args, "--seed").and_then(|s| s.parse().ok()).unwrap_or(DEFAULT_SEED);
    let from: u64 = arg(args, "--from").and_then(|s| s.parse().ok()).unwrap_or(0);
    let runs: u64 = arg(args, "--runs").and_then(|s| s.parse().ok()).unwrap_or(100);
    let mut bad = 0;
    for k in from..from + runs {
        let seed = run_seed(base, &prop, k);
        let a = runner::generate(&prop, seed);
        let b = runner::replay(&a.cfg, &a.ops);
        let sa: u64 = a.states.iter().fold(0u64, |x, y| x.rotate_left(5) ^ y);
        let sb: u64 = b.states.iter().fold(0u64, |x, y| x.rotate_left(5) ^ y);
        let va = a.violation.as_ref().map(|v| v.class.clone());
        let vb = b.violation.as_ref().map(|v| v.class.clone());
        if a.final_digest_hash != b.final_digest_hash || sa != sb || a.steps != b.steps || va != vb || a.inconclusive.is_some() != b.inconclusive.is_some() {
            bad += 1;
            println!("MISMATCH run {} seed {}: steps {}/{} final {:x}/{:x} states {:x}/{:x} viol {:?}/{:?} inc {:?}/{:?}", k, seed, a.steps, b.steps, a.final_digest_hash, b.final_digest_hash, sa, sb, va, vb, a.inconclusive, b.inconclusive);
        }
    }
    println!("selftest {} build={} runs={} mismatches={}", prop, crate::seam::FLAVOUR, runs, bad);
    if bad > 0 { 1 } else { 0 }
}
