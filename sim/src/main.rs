//! meldasim — deterministic simulation with fault injection for libmelda (see /verif/DESIGN.md).
mod api;
mod backends;
mod disk;
mod docgen;
mod driver;
mod gen;
mod ops;
mod post;
mod refstore;
mod rng;
mod runner;
mod sched;
mod seam;
mod treecheck;
mod world;

fn main() {
    // error values carry no backtraces: messages must be stable across environments
    std::env::set_var("RUST_BACKTRACE", "0");
    std::env::set_var("RUST_LIB_BACKTRACE", "0");
    api::install_panic_hook();
    let args: Vec<String> = std::env::args().skip(1).collect();
    let code = match args.first().map(|s| s.as_str()) {
        Some("check") => driver::cmd_check(&args[1..]),
        Some("worker") => driver::cmd_worker(&args[1..]),
        Some("replay") => driver::cmd_replay(&args[1..]),
        Some("detlog") => driver::cmd_detlog(&args[1..]),
        Some("journal") => driver::cmd_journal(&args[1..]),
        Some("one") => driver::cmd_one(&args[1..]),
        Some("selftest") => driver::cmd_selftest(&args[1..]),
        _ => {
            eprintln!("usage: meldasim check <Cxx> [--tier quick|thorough] [--seed N] [--runs N] [--jobs N]\n       meldasim replay <file>\n       meldasim detlog <Cxx> --seed N --runs N\n       meldasim one <Cxx> <run-seed>");
            2
        }
    };
    std::process::exit(code);
}
