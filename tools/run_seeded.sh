#!/bin/bash
# tools/run_seeded.sh [ids...]   -- applies every seeded change under /verif/seeded/ to /repo (one at a time, always restored),
# runs the quick check of the property it breaks, records the outcome in its meta.json and prints a table.
set -u
cd /verif
find replays -name "*.json" -delete 2>/dev/null
ids="${*:-$(ls seeded | grep -v '\.md$')}"
for id in $ids; do
  d="seeded/$id"; [ -f "$d/patch.diff" ] || continue
  prop=$(python3 -c "import json;print(json.load(open('$d/meta.json'))['breaks_property'])")
  extra=$(python3 -c "import json;print(' '.join(json.load(open('$d/meta.json')).get('also_try',[])))")
  line=$(tools/try_mutant.sh "/verif/$d/patch.diff" $prop $extra 2>&1 | tr '\n' '|')
  echo "$id: $line"
  python3 - "$d/meta.json" "$line" <<'PY'
import json,sys
p,line=sys.argv[1:3]
m=json.load(open(p))
res=[x.strip() for x in line.split('|') if x.strip()]
m['detected_by']=[x for x in res if x.startswith('CAUGHT')]
m['missed_by']=[x for x in res if x.startswith('MISSED') or x.startswith('ERROR')]
json.dump(m,open(p,'w'),indent=1)
PY
done
