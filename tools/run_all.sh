#!/bin/bash
# tools/run_all.sh [quick|thorough] [props...] -- runs the checks one after the other on the current /repo tree, prints one line each
tier="${1:-quick}"; shift
props="${*:-C01 C02 C03 C04 C05 C06 C07 C08 C09 C10 C11 C12 C13 C14 C15 C16 C17 C18 C19}"
cd "$(dirname "$0")/.." || exit 2
fail=0
for p in $props; do
  t0=$(date +%s)
  out=$(./check $p $tier 2>&1); rc=$?
  t1=$(date +%s)
  echo "$p rc=$rc $((t1-t0))s $(echo "$out" | grep -E '^runs=' | tail -1 | cut -c1-110) $(echo "$out" | grep -c WARNING) warnings"
  if [ $rc -ne 0 ]; then fail=1; echo "$out" | grep -E "VIOLATION|HARNESS|BUILD-ERROR|class=" | head -6; fi
  echo "$out" | grep -E "WARNING|KNOWN-FINDING|inconclusive x" | head -6
done
exit $fail
