#!/bin/bash
# tools/try_mutant.sh <patch.diff> <Cxx> [more props...]   -- applies a scratch change to /repo, runs the quick checks,
# always restores /repo afterwards. Prints one line per property: CAUGHT / MISSED / ERROR.
set -u
patch="$1"; shift
cd /repo || exit 2
if [ -n "$(git status --porcelain --untracked-files=no)" ]; then echo "refusing: /repo has uncommitted changes"; exit 2; fi
if ! git apply --check "$patch" 2>/dev/null; then echo "PATCH-DOES-NOT-APPLY $patch"; exit 2; fi
git apply "$patch"
trap 'git -C /repo checkout -- . ' EXIT
for p in "$@"; do
  out=$(/verif/check "$p" quick 2>&1); rc=$?
  cls=$(echo "$out" | grep -E "^  class=" | sort | uniq -c | sort -rn | head -3 | tr '\n' ';')
  case $rc in
    0) echo "MISSED $p  $(echo "$out" | grep -E '^runs=' | cut -c1-80)";;
    1) echo "CAUGHT $p  $cls";;
    *) echo "ERROR  $p rc=$rc $(echo "$out" | tail -3 | tr '\n' ' ' | cut -c1-300)";;
  esac
done
