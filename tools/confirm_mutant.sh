#!/bin/bash
# tools/confirm_mutant.sh <worktree> <A|B> <seeded-id> <property>
# Confirms in the scratch worktree that (i) the existing tests pass with the change, (ii) the demonstration fails with it,
# (iii) the demonstration passes without it; then stores patch + demo + meta.json under /verif/seeded/<id>/.
set -u
wt="$1"; v="$2"; id="$3"; prop="$4"
out="$wt/_out/$v"
cd "$wt" || exit 2
export CARGO_NET_OFFLINE=true
git checkout -q -- . ; rm -rf tests; mkdir -p tests; cp "$out/demo.rs" tests/seeded_demo.rs
clean_demo=$(cargo test --offline ${CONFIRM_FEATURES:-} --test seeded_demo 2>&1 | grep -E "^test result" | tail -1)
git apply "$out/patch.diff" || { echo "$id: patch does not apply"; exit 2; }
mut_demo=$(cargo test --offline ${CONFIRM_FEATURES:-} --test seeded_demo 2>&1 | grep -E "^test result" | tail -1)
rm -rf tests
mut_suite=$(cargo test --workspace --offline 2>&1 | grep -E "^test result" | tr '\n' ' ')
git checkout -q -- .
ok=1
echo "$clean_demo" | grep -q "test result: ok" || ok=0
echo "$mut_demo" | grep -q "FAILED" || ok=0
echo "$mut_suite" | grep -q "FAILED" && ok=0
echo "$mut_suite" | grep -q "32 passed" || ok=0
echo "$id: clean_demo=[$clean_demo] mutant_demo=[$mut_demo] mutant_suite=[$mut_suite] confirmed=$ok"
if [ $ok = 1 ]; then
  d="/verif/seeded/$id"; mkdir -p "$d"
  cp "$out/patch.diff" "$d/patch.diff"; cp "$out/demo.rs" "$d/demo.rs"; cp "$out/README.md" "$d/README.md" 2>/dev/null
  python3 - "$d" "$prop" "$id" "$clean_demo" "$mut_demo" "$mut_suite" <<'PY'
import json,sys,re
d,prop,id_,cd,md,ms=sys.argv[1:7]
readme=open(d+'/README.md').read() if True else ''
meta={"id":id_,"breaks_property":prop,"source":"independent sub-agent given only the property text and a scratch worktree",
 "needs_to_manifest":"see README.md (written by the author of the change)",
 "confirmed":{"existing_suite_with_change":ms.strip(),"demo_with_change":md.strip(),"demo_without_change":cd.strip(),
   "how":"tools/confirm_mutant.sh in the scratch worktree: cargo test --offline --test seeded_demo (clean), git apply patch.diff, same again, then cargo test --workspace --offline without the demo"},
 "detected_by":None}
json.dump(meta,open(d+'/meta.json','w'),indent=1)
PY
fi
