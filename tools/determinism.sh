#!/bin/bash
# [FLAVOUR=seq|sched] tools/determinism.sh [runs] [props...]  -- every run seed executed twice (16-process split, then 3-process split);
# the per-run logs (op count, trace hash, final state+storage hash, state set hash, outcome) must be identical.
set -u
VERIF_HOME="$(cd "$(dirname "$0")/.." && pwd)"; export VERIF_HOME
FL="${FLAVOUR:-seq}"; "$VERIF_HOME/check" build "$FL" || exit 2
bin="$VERIF_HOME/build/$FL/target/release/meldasim"
runs="${1:-2000}"; shift
props="${*:-C01 C02 C03 C04 C05 C06 C07 C08 C09 C10 C11 C12 C13 C14 C15 C16 C18 C19}"
tmp="$VERIF_HOME/.work/det.$$"; mkdir -p "$tmp"
rc=0
for p in $props; do
  for split in 16 3; do
    per=$(( (runs + split - 1) / split ))
    for i in $(seq 0 $((split-1))); do
      "$bin" detlog "$p" --from $((i*per)) --runs $per > "$tmp/$p.$split.$i" &
    done
    wait
    cat $(for i in $(seq 0 $((split-1))); do echo "$tmp/$p.$split.$i"; done) | sort -n | awk -v n="$runs" '$1 < n' > "$tmp/$p.$split.all"
  done
  if cmp -s "$tmp/$p.16.all" "$tmp/$p.3.all"; then
    echo "DETERMINISTIC $p: $(wc -l < "$tmp/$p.16.all") runs x2 identical"
  else
    echo "NONDETERMINISTIC $p:"; diff "$tmp/$p.16.all" "$tmp/$p.3.all" | head -6; rc=1
  fi
done
# generate-vs-replay equivalence: a run replayed from its recorded op list ends in the same states and storage
for p in $props; do
  n=$(( runs / 4 )); per=$(( (n + 15) / 16 ))
  for i in $(seq 0 15); do "$bin" selftest "$p" --from $((i*per)) --runs $per 2>/dev/null | grep -E "MISMATCH|^selftest" > "$tmp/$p.self.$i" & done
  wait
  bad=$(cat "$tmp/$p.self."* | grep -c MISMATCH)
  if [ "$bad" = "0" ]; then echo "REPLAY-EQUIVALENT $p: $((per*16)) runs"; else echo "REPLAY-DIFFERS $p: $bad runs"; cat "$tmp/$p.self."* | grep MISMATCH | head -3; rc=1; fi
done
rm -rf "$tmp"
exit $rc
