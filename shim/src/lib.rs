//! Seams that libmelda does not have on its own, compiled in only under `--cfg melda_verif`:
//!  * `collections::{HashMap, HashSet}` — std hash tables whose hasher key is chosen by the
//!    simulator (one seed per run; every table created gets `seed ^ f(creation counter)`),
//!    so that iteration order is a replayable input instead of OS randomness;
//!  * `sync::{Arc, Mutex, RwLock}` — lock types that are observation points.
//!    seq flavour (default): thin wrappers over std that know whether they are held; the
//!    world runs on one thread, so acquiring a lock that is already held in a conflicting
//!    mode can never succeed and is reported as `VERIF-DEADLOCK <what> at <file:line>`
//!    (a panic the simulator catches) instead of hanging.
//!    sched flavour (feature `sched`): the same API over shuttle primitives; every
//!    acquisition is a scheduling point of shuttle's seeded scheduler.

pub mod collections {
    use std::cell::Cell;
    use std::hash::{BuildHasher, Hash, Hasher};

    thread_local! {
        static SEED: Cell<u64> = const { Cell::new(0) };
        static CTR: Cell<u64> = const { Cell::new(0) };
    }

    /// Sets the hash seed of the current thread and restarts the table creation counter.
    pub fn set_hash_seed(s: u64) {
        SEED.with(|c| c.set(s));
        CTR.with(|c| c.set(0));
    }

    pub fn hash_seed() -> u64 {
        SEED.with(|c| c.get())
    }

    /// Tables created so far on this thread since the last `set_hash_seed` (reach probe).
    pub fn tables_created() -> u64 {
        CTR.with(|c| c.get())
    }

    #[derive(Clone, Debug)]
    pub struct Seeded(u64);

    impl Default for Seeded {
        fn default() -> Self {
            let n = CTR.with(|c| {
                let v = c.get();
                c.set(v + 1);
                v
            });
            Seeded(SEED.with(|c| c.get()) ^ n.wrapping_mul(0x9E37_79B9_7F4A_7C15))
        }
    }

    impl BuildHasher for Seeded {
        type Hasher = std::collections::hash_map::DefaultHasher;
        fn build_hasher(&self) -> Self::Hasher {
            let mut h = std::collections::hash_map::DefaultHasher::new();
            h.write_u64(self.0);
            h
        }
    }

    type Inner<K, V> = std::collections::HashMap<K, V, Seeded>;

    #[derive(Clone, Debug)]
    pub struct HashMap<K, V>(pub Inner<K, V>);

    impl<K, V> HashMap<K, V> {
        pub fn new() -> Self {
            HashMap(Inner::default())
        }
        pub fn with_capacity(n: usize) -> Self {
            HashMap(Inner::with_capacity_and_hasher(n, Seeded::default()))
        }
    }
    impl<K, V> Default for HashMap<K, V> {
        fn default() -> Self {
            Self::new()
        }
    }
    impl<K, V> std::ops::Deref for HashMap<K, V> {
        type Target = Inner<K, V>;
        fn deref(&self) -> &Inner<K, V> {
            &self.0
        }
    }
    impl<K, V> std::ops::DerefMut for HashMap<K, V> {
        fn deref_mut(&mut self) -> &mut Inner<K, V> {
            &mut self.0
        }
    }
    impl<K, V> IntoIterator for HashMap<K, V> {
        type Item = (K, V);
        type IntoIter = std::collections::hash_map::IntoIter<K, V>;
        fn into_iter(self) -> Self::IntoIter {
            self.0.into_iter()
        }
    }
    impl<'a, K, V> IntoIterator for &'a HashMap<K, V> {
        type Item = (&'a K, &'a V);
        type IntoIter = std::collections::hash_map::Iter<'a, K, V>;
        fn into_iter(self) -> Self::IntoIter {
            self.0.iter()
        }
    }
    impl<'a, K, V> IntoIterator for &'a mut HashMap<K, V> {
        type Item = (&'a K, &'a mut V);
        type IntoIter = std::collections::hash_map::IterMut<'a, K, V>;
        fn into_iter(self) -> Self::IntoIter {
            self.0.iter_mut()
        }
    }
    impl<K: Eq + Hash, V> FromIterator<(K, V)> for HashMap<K, V> {
        fn from_iter<I: IntoIterator<Item = (K, V)>>(i: I) -> Self {
            let mut m = Self::new();
            m.0.extend(i);
            m
        }
    }
    impl<K: Eq + Hash, V: PartialEq> PartialEq for HashMap<K, V> {
        fn eq(&self, o: &Self) -> bool {
            self.0 == o.0
        }
    }
    impl<K: Eq + Hash, V: Eq> Eq for HashMap<K, V> {}

    type InnerS<T> = std::collections::HashSet<T, Seeded>;

    #[derive(Clone, Debug)]
    pub struct HashSet<T>(pub InnerS<T>);

    impl<T> HashSet<T> {
        pub fn new() -> Self {
            HashSet(InnerS::default())
        }
    }
    impl<T> Default for HashSet<T> {
        fn default() -> Self {
            Self::new()
        }
    }
    impl<T> std::ops::Deref for HashSet<T> {
        type Target = InnerS<T>;
        fn deref(&self) -> &InnerS<T> {
            &self.0
        }
    }
    impl<T> std::ops::DerefMut for HashSet<T> {
        fn deref_mut(&mut self) -> &mut InnerS<T> {
            &mut self.0
        }
    }
    impl<T> IntoIterator for HashSet<T> {
        type Item = T;
        type IntoIter = std::collections::hash_set::IntoIter<T>;
        fn into_iter(self) -> Self::IntoIter {
            self.0.into_iter()
        }
    }
    impl<'a, T> IntoIterator for &'a HashSet<T> {
        type Item = &'a T;
        type IntoIter = std::collections::hash_set::Iter<'a, T>;
        fn into_iter(self) -> Self::IntoIter {
            self.0.iter()
        }
    }
    impl<T: Eq + Hash> FromIterator<T> for HashSet<T> {
        fn from_iter<I: IntoIterator<Item = T>>(i: I) -> Self {
            let mut m = Self::new();
            m.0.extend(i);
            m
        }
    }
    impl<T: Eq + Hash> PartialEq for HashSet<T> {
        fn eq(&self, o: &Self) -> bool {
            self.0 == o.0
        }
    }
}

#[cfg(not(feature = "sched"))]
pub mod sync {
    pub use std::sync::Arc;
    use std::panic::Location;
    use std::sync::atomic::{AtomicIsize, AtomicU64, Ordering};
    use std::sync::{LockResult, PoisonError};

    /// Number of lock acquisitions (reach probe; not a scheduling input).
    pub static ACQUISITIONS: AtomicU64 = AtomicU64::new(0);
    /// Number of re-entrant read acquisitions that succeeded (legal in std on one thread).
    pub static REENTRANT_READS: AtomicU64 = AtomicU64::new(0);

    pub const DEADLOCK_TAG: &str = "VERIF-DEADLOCK";

    fn deadlock(what: &str, at: &Location) -> ! {
        panic!("{} {} at {}", DEADLOCK_TAG, what, at)
    }

    // state: 0 = free, -1 = held exclusively, n > 0 = n readers
    pub struct Mutex<T: ?Sized> {
        state: AtomicIsize,
        inner: std::sync::Mutex<T>,
    }
    pub struct MutexGuard<'a, T: ?Sized> {
        g: std::sync::MutexGuard<'a, T>,
        state: &'a AtomicIsize,
    }
    impl<T> Mutex<T> {
        pub fn new(t: T) -> Self {
            Mutex {
                state: AtomicIsize::new(0),
                inner: std::sync::Mutex::new(t),
            }
        }
        pub fn into_inner(self) -> LockResult<T> {
            self.inner.into_inner()
        }
    }
    impl<T: ?Sized> Mutex<T> {
        #[track_caller]
        pub fn lock(&self) -> LockResult<MutexGuard<'_, T>> {
            if self.state.load(Ordering::SeqCst) != 0 {
                deadlock("mutex re-locked", Location::caller())
            }
            ACQUISITIONS.fetch_add(1, Ordering::Relaxed);
            self.state.store(-1, Ordering::SeqCst);
            match self.inner.lock() {
                Ok(g) => Ok(MutexGuard {
                    g,
                    state: &self.state,
                }),
                Err(e) => Err(PoisonError::new(MutexGuard {
                    g: e.into_inner(),
                    state: &self.state,
                })),
            }
        }
        pub fn get_mut(&mut self) -> LockResult<&mut T> {
            self.inner.get_mut()
        }
    }
    impl<T: ?Sized> Drop for MutexGuard<'_, T> {
        fn drop(&mut self) {
            self.state.store(0, Ordering::SeqCst);
        }
    }
    impl<T: ?Sized> std::ops::Deref for MutexGuard<'_, T> {
        type Target = T;
        fn deref(&self) -> &T {
            &self.g
        }
    }
    impl<T: ?Sized> std::ops::DerefMut for MutexGuard<'_, T> {
        fn deref_mut(&mut self) -> &mut T {
            &mut self.g
        }
    }
    impl<T: ?Sized + std::fmt::Debug> std::fmt::Debug for Mutex<T> {
        fn fmt(&self, f: &mut std::fmt::Formatter<'_>) -> std::fmt::Result {
            self.inner.fmt(f)
        }
    }

    pub struct RwLock<T: ?Sized> {
        state: AtomicIsize,
        inner: std::sync::RwLock<T>,
    }
    pub struct RwLockReadGuard<'a, T: ?Sized> {
        g: std::sync::RwLockReadGuard<'a, T>,
        state: &'a AtomicIsize,
    }
    pub struct RwLockWriteGuard<'a, T: ?Sized> {
        g: std::sync::RwLockWriteGuard<'a, T>,
        state: &'a AtomicIsize,
    }
    impl<T> RwLock<T> {
        pub fn new(t: T) -> Self {
            RwLock {
                state: AtomicIsize::new(0),
                inner: std::sync::RwLock::new(t),
            }
        }
    }
    impl<T: ?Sized> RwLock<T> {
        #[track_caller]
        pub fn read(&self) -> LockResult<RwLockReadGuard<'_, T>> {
            let s = self.state.load(Ordering::SeqCst);
            if s < 0 {
                deadlock("read while write-held", Location::caller())
            }
            if s > 0 {
                REENTRANT_READS.fetch_add(1, Ordering::Relaxed);
            }
            ACQUISITIONS.fetch_add(1, Ordering::Relaxed);
            self.state.fetch_add(1, Ordering::SeqCst);
            Ok(RwLockReadGuard {
                g: self.inner.read().unwrap_or_else(|e| e.into_inner()),
                state: &self.state,
            })
        }
        #[track_caller]
        pub fn write(&self) -> LockResult<RwLockWriteGuard<'_, T>> {
            if self.state.load(Ordering::SeqCst) != 0 {
                deadlock("write while held", Location::caller())
            }
            ACQUISITIONS.fetch_add(1, Ordering::Relaxed);
            self.state.store(-1, Ordering::SeqCst);
            Ok(RwLockWriteGuard {
                g: self.inner.write().unwrap_or_else(|e| e.into_inner()),
                state: &self.state,
            })
        }
        pub fn get_mut(&mut self) -> LockResult<&mut T> {
            self.inner.get_mut()
        }
    }
    impl<T: ?Sized> Drop for RwLockReadGuard<'_, T> {
        fn drop(&mut self) {
            self.state.fetch_sub(1, Ordering::SeqCst);
        }
    }
    impl<T: ?Sized> Drop for RwLockWriteGuard<'_, T> {
        fn drop(&mut self) {
            self.state.store(0, Ordering::SeqCst);
        }
    }
    impl<T: ?Sized> std::ops::Deref for RwLockReadGuard<'_, T> {
        type Target = T;
        fn deref(&self) -> &T {
            &self.g
        }
    }
    impl<T: ?Sized> std::ops::Deref for RwLockWriteGuard<'_, T> {
        type Target = T;
        fn deref(&self) -> &T {
            &self.g
        }
    }
    impl<T: ?Sized> std::ops::DerefMut for RwLockWriteGuard<'_, T> {
        fn deref_mut(&mut self) -> &mut T {
            &mut self.g
        }
    }
}

#[cfg(feature = "sched")]
pub mod sync;
