//! sched flavour of the lock seam: every acquisition is a scheduling point of shuttle's seeded
//! scheduler. `Mutex` is shuttle's own. `RwLock` is re-implemented on shuttle `Mutex` + `Condvar`
//! because shuttle's `RwLock` asserts on a re-entrant read, which libmelda does legitimately
//! (`check_delta`, `refresh`, `commit`). The model is that of std on Linux (writer-preferring):
//! a read is granted while no writer holds or *waits for* the lock, so a re-entrant read
//! succeeds unless a writer queued up in between — in which case both block for ever and
//! shuttle reports the deadlock.
pub use shuttle::sync::{Mutex, MutexGuard};
pub use std::sync::Arc;

use shuttle::sync::Condvar;
use std::cell::UnsafeCell;
use std::sync::LockResult;

struct State {
    readers: usize,
    writer: bool,
    writers_waiting: usize,
}

pub struct RwLock<T: ?Sized> {
    state: Mutex<State>,
    cv: Condvar,
    data: UnsafeCell<T>,
}

unsafe impl<T: ?Sized + Send> Send for RwLock<T> {}
unsafe impl<T: ?Sized + Send + Sync> Sync for RwLock<T> {}

pub struct RwLockReadGuard<'a, T: ?Sized> {
    lock: &'a RwLock<T>,
}
pub struct RwLockWriteGuard<'a, T: ?Sized> {
    lock: &'a RwLock<T>,
}

impl<T> RwLock<T> {
    pub fn new(t: T) -> Self {
        RwLock {
            state: Mutex::new(State { readers: 0, writer: false, writers_waiting: 0 }),
            cv: Condvar::new(),
            data: UnsafeCell::new(t),
        }
    }
}

impl<T: ?Sized> RwLock<T> {
    pub fn read(&self) -> LockResult<RwLockReadGuard<'_, T>> {
        let mut s = self.state.lock().unwrap_or_else(|e| e.into_inner());
        while s.writer || s.writers_waiting > 0 {
            s = self.cv.wait(s).unwrap_or_else(|e| e.into_inner());
        }
        s.readers += 1;
        Ok(RwLockReadGuard { lock: self })
    }

    pub fn write(&self) -> LockResult<RwLockWriteGuard<'_, T>> {
        let mut s = self.state.lock().unwrap_or_else(|e| e.into_inner());
        s.writers_waiting += 1;
        while s.writer || s.readers > 0 {
            s = self.cv.wait(s).unwrap_or_else(|e| e.into_inner());
        }
        s.writers_waiting -= 1;
        s.writer = true;
        Ok(RwLockWriteGuard { lock: self })
    }

    pub fn get_mut(&mut self) -> LockResult<&mut T> {
        Ok(self.data.get_mut())
    }
}

impl<T: ?Sized> Drop for RwLockReadGuard<'_, T> {
    fn drop(&mut self) {
        if std::thread::panicking() {
            return; // never touch the scheduler while unwinding (a second panic would abort)
        }
        let mut s = self.lock.state.lock().unwrap_or_else(|e| e.into_inner());
        s.readers -= 1;
        drop(s);
        self.lock.cv.notify_all();
    }
}
impl<T: ?Sized> Drop for RwLockWriteGuard<'_, T> {
    fn drop(&mut self) {
        if std::thread::panicking() {
            return;
        }
        let mut s = self.lock.state.lock().unwrap_or_else(|e| e.into_inner());
        s.writer = false;
        drop(s);
        self.lock.cv.notify_all();
    }
}
impl<T: ?Sized> std::ops::Deref for RwLockReadGuard<'_, T> {
    type Target = T;
    fn deref(&self) -> &T {
        unsafe { &*self.lock.data.get() }
    }
}
impl<T: ?Sized> std::ops::Deref for RwLockWriteGuard<'_, T> {
    type Target = T;
    fn deref(&self) -> &T {
        unsafe { &*self.lock.data.get() }
    }
}
impl<T: ?Sized> std::ops::DerefMut for RwLockWriteGuard<'_, T> {
    fn deref_mut(&mut self) -> &mut T {
        unsafe { &mut *self.lock.data.get() }
    }
}
