//! Stand-in for the subset of `rayon` that libmelda uses (`par_iter`, `par_iter_mut`,
//! `into_par_iter` + `for_each` / `filter` / `map` / `any` / `collect`), resolved through the
//! shadow manifest (dependency rename), so /repo needs no hook for it.
//!
//! seq flavour (default): every parallel loop runs on the calling thread, in an order drawn
//! from a PRNG the simulator seeds per run. Any such order is a legal outcome of a real pool
//! of any size (with one worker stealing everything), so "who runs next" inside a parallel
//! loop is the simulator's decision and is replayable.
//!
//! sched flavour (feature `sched`): items are dealt to `k` shuttle threads (k = simulated pool
//! size); shuttle's seeded scheduler decides every switch at the lock shims.

use std::cell::Cell;

thread_local! {
    static ORDER_SEED: Cell<u64> = const { Cell::new(0) };
    static LOOPS: Cell<u64> = const { Cell::new(0) };
    static POOL: Cell<usize> = const { Cell::new(4) };
}

/// Seeds the permutation source for parallel loops on this thread.
pub fn set_order_seed(s: u64) {
    ORDER_SEED.with(|c| c.set(s));
}

/// Simulated pool size (only used by the sched flavour).
pub fn set_pool_size(k: usize) {
    POOL.with(|c| c.set(k.max(1)));
}

pub fn pool_size() -> usize {
    POOL.with(|c| c.get())
}

/// Parallel loops with more than one item executed so far (reach probe).
pub fn loops_permuted() -> u64 {
    LOOPS.with(|c| c.replace(0))
}

fn next() -> u64 {
    ORDER_SEED.with(|c| {
        let mut x = c.get().wrapping_add(0x9E37_79B9_7F4A_7C15);
        c.set(x);
        x = (x ^ (x >> 30)).wrapping_mul(0xBF58_476D_1CE4_E5B9);
        x = (x ^ (x >> 27)).wrapping_mul(0x94D0_49BB_1331_11EB);
        x ^ (x >> 31)
    })
}

fn permute<T>(v: &mut [T]) {
    if v.len() > 1 {
        LOOPS.with(|c| c.set(c.get() + 1));
    }
    for i in (1..v.len()).rev() {
        let j = (next() % (i as u64 + 1)) as usize;
        v.swap(i, j);
    }
}

pub struct Par<T> {
    items: Vec<T>,
    fixed: bool,
}

pub mod iter {
    pub trait ParallelIterator: Sized {
        type Item: Send;
        /// Materialises the items in the (simulator-chosen) execution order.
        fn drive(self) -> Vec<Self::Item>;

        fn for_each<F: Fn(Self::Item) + Sync + Send>(self, f: F) {
            super::run_for_each(self.drive(), f)
        }
        fn filter<P: Fn(&Self::Item) -> bool + Sync + Send>(self, p: P) -> super::Filter<Self, P> {
            super::Filter { base: self, p }
        }
        fn map<R: Send, F: Fn(Self::Item) -> R + Sync + Send>(self, f: F) -> super::Map<Self, F> {
            super::Map { base: self, f }
        }
        fn any<P: Fn(Self::Item) -> bool + Sync + Send>(self, p: P) -> bool {
            super::par_map(self.drive(), p).into_iter().any(|b| b)
        }
        fn collect<C: FromIterator<Self::Item>>(self) -> C {
            self.drive().into_iter().collect()
        }
        // --- adaptors libmelda does not use today; provided so that a change which reaches for
        // another common rayon method still builds under the shim (closures run "in parallel")
        fn all<P: Fn(Self::Item) -> bool + Sync + Send>(self, p: P) -> bool {
            super::par_map(self.drive(), p).into_iter().all(|b| b)
        }
        fn count(self) -> usize {
            self.drive().len()
        }
        fn filter_map<R: Send, F: Fn(Self::Item) -> Option<R> + Sync + Send>(self, f: F) -> super::FilterMap<Self, F> {
            super::FilterMap { base: self, f }
        }
        fn flat_map<I: IntoIterator, F: Fn(Self::Item) -> I + Sync + Send>(self, f: F) -> super::Par<I::Item>
        where
            I::Item: Send,
            I: Send,
        {
            let parts: Vec<Vec<I::Item>> = super::par_map(self.drive(), |x| f(x).into_iter().collect::<Vec<_>>());
            super::Par::from_vec(parts.into_iter().flatten().collect())
        }
        fn try_for_each<E: Send, F: Fn(Self::Item) -> Result<(), E> + Sync + Send>(self, f: F) -> Result<(), E> {
            for r in super::par_map(self.drive(), f) {
                r?;
            }
            Ok(())
        }
        fn for_each_with<T: Send + Sync + Clone, F: Fn(&mut T, Self::Item) + Sync + Send>(self, init: T, f: F) {
            super::par_map(self.drive(), |x| {
                let mut t = init.clone();
                f(&mut t, x)
            });
        }
        fn find_any<P: Fn(&Self::Item) -> bool + Sync + Send>(self, p: P) -> Option<Self::Item> {
            super::par_map(self.drive(), |x| if p(&x) { Some(x) } else { None }).into_iter().flatten().next()
        }
        fn find_first<P: Fn(&Self::Item) -> bool + Sync + Send>(self, p: P) -> Option<Self::Item> {
            self.find_any(p)
        }
        fn reduce<ID: Fn() -> Self::Item + Sync + Send, OP: Fn(Self::Item, Self::Item) -> Self::Item + Sync + Send>(self, identity: ID, op: OP) -> Self::Item {
            self.drive().into_iter().fold(identity(), |a, b| op(a, b))
        }
        fn sum<S: std::iter::Sum<Self::Item>>(self) -> S {
            self.drive().into_iter().sum()
        }
        fn min_by_key<K: Ord + Send, F: Fn(&Self::Item) -> K + Sync + Send>(self, f: F) -> Option<Self::Item> {
            self.drive().into_iter().min_by_key(|x| f(x))
        }
        fn max_by_key<K: Ord + Send, F: Fn(&Self::Item) -> K + Sync + Send>(self, f: F) -> Option<Self::Item> {
            self.drive().into_iter().max_by_key(|x| f(x))
        }
        fn enumerate(self) -> super::Par<(usize, Self::Item)> {
            super::Par::from_vec(self.drive().into_iter().enumerate().collect())
        }
        fn collect_into_vec(self, target: &mut Vec<Self::Item>) {
            *target = self.drive();
        }
    }
    pub trait IntoParallelIterator {
        type Item: Send;
        type Iter: ParallelIterator<Item = Self::Item>;
        fn into_par_iter(self) -> Self::Iter;
    }
    pub trait IntoParallelRefIterator<'a> {
        type Item: Send + 'a;
        type Iter: ParallelIterator<Item = Self::Item>;
        fn par_iter(&'a self) -> Self::Iter;
    }
    pub trait IntoParallelRefMutIterator<'a> {
        type Item: Send + 'a;
        type Iter: ParallelIterator<Item = Self::Item>;
        fn par_iter_mut(&'a mut self) -> Self::Iter;
    }
    impl<'a, C: 'a + ?Sized> IntoParallelRefIterator<'a> for C
    where
        &'a C: IntoParallelIterator,
    {
        type Item = <&'a C as IntoParallelIterator>::Item;
        type Iter = <&'a C as IntoParallelIterator>::Iter;
        fn par_iter(&'a self) -> Self::Iter {
            self.into_par_iter()
        }
    }
    impl<'a, C: 'a + ?Sized> IntoParallelRefMutIterator<'a> for C
    where
        &'a mut C: IntoParallelIterator,
    {
        type Item = <&'a mut C as IntoParallelIterator>::Item;
        type Iter = <&'a mut C as IntoParallelIterator>::Iter;
        fn par_iter_mut(&'a mut self) -> Self::Iter {
            self.into_par_iter()
        }
    }
}
use iter::*;

/// Applies `f` to every item "in parallel" and returns the results in item order.
#[cfg(not(feature = "sched"))]
fn par_map<T: Send, R: Send, F: Fn(T) -> R + Sync + Send>(items: Vec<T>, f: F) -> Vec<R> {
    items.into_iter().map(f).collect()
}

#[cfg(feature = "sched")]
fn par_map<T: Send, R: Send, F: Fn(T) -> R + Sync + Send>(items: Vec<T>, f: F) -> Vec<R> {
    let n = items.len();
    let k = pool_size().min(n.max(1));
    if k <= 1 || !shuttle_active() {
        return items.into_iter().map(f).collect();
    }
    PAR_LOOPS.with(|c| c.set(c.get() + 1));
    // deal items round-robin to k simulated workers; each worker is a shuttle thread
    let mut lanes: Vec<Vec<(usize, T)>> = (0..k).map(|_| Vec::new()).collect();
    for (i, x) in items.into_iter().enumerate() {
        lanes[i % k].push((i, x));
    }
    let f = &f;
    let results: std::sync::Mutex<Vec<(usize, R)>> = std::sync::Mutex::new(Vec::with_capacity(n));
    let panicked: std::sync::Mutex<Option<Box<dyn std::any::Any + Send>>> = std::sync::Mutex::new(None);
    let (results_ref, panicked_ref) = (&results, &panicked);
    shuttle::thread::scope(|s| {
        for lane in lanes {
            s.spawn(move || {
                for (i, x) in lane {
                    match std::panic::catch_unwind(std::panic::AssertUnwindSafe(|| f(x))) {
                        Ok(r) => results_ref.lock().unwrap().push((i, r)),
                        Err(p) => {
                            // a worker panic is re-raised on the calling thread, like rayon does
                            panicked_ref.lock().unwrap().get_or_insert(p);
                            return;
                        }
                    }
                    shuttle::thread::yield_now();
                }
            });
        }
    });
    if let Some(p) = panicked.into_inner().unwrap() {
        std::panic::resume_unwind(p);
    }
    let mut v = results.into_inner().unwrap();
    v.sort_by_key(|(i, _)| *i);
    v.into_iter().map(|(_, r)| r).collect()
}

fn run_for_each<T: Send, F: Fn(T) + Sync + Send>(items: Vec<T>, f: F) {
    par_map(items, f);
}

#[cfg(feature = "sched")]
thread_local! {
    static ACTIVE: Cell<bool> = const { Cell::new(false) };
    static PAR_LOOPS: Cell<u64> = const { Cell::new(0) };
}
#[cfg(feature = "sched")]
pub fn set_shuttle_active(b: bool) {
    ACTIVE.with(|c| c.set(b));
}
#[cfg(feature = "sched")]
fn shuttle_active() -> bool {
    ACTIVE.with(|c| c.get())
}
/// Parallel loops that were really executed on more than one simulated worker (reach probe).
#[cfg(feature = "sched")]
pub fn loops_on_workers() -> u64 {
    PAR_LOOPS.with(|c| c.replace(0))
}

impl<T: Send> ParallelIterator for Par<T> {
    type Item = T;
    fn drive(mut self) -> Vec<T> {
        if !self.fixed {
            permute(&mut self.items);
        }
        self.items
    }
}

impl<T: Send> Par<T> {
    /// Items already in execution order (no second permutation).
    pub fn from_vec(items: Vec<T>) -> Par<T> {
        Par { items, fixed: true }
    }
}

pub struct FilterMap<B, F> {
    base: B,
    f: F,
}
impl<B: ParallelIterator, R: Send, F: Fn(B::Item) -> Option<R> + Sync + Send> ParallelIterator for FilterMap<B, F> {
    type Item = R;
    fn drive(self) -> Vec<R> {
        let f = self.f;
        par_map(self.base.drive(), f).into_iter().flatten().collect()
    }
}

pub struct Filter<B, P> {
    base: B,
    p: P,
}
impl<B: ParallelIterator, P: Fn(&B::Item) -> bool + Sync + Send> ParallelIterator for Filter<B, P> {
    type Item = B::Item;
    fn drive(self) -> Vec<B::Item> {
        let p = self.p;
        par_map(self.base.drive(), |x| if p(&x) { Some(x) } else { None }).into_iter().flatten().collect()
    }
}

pub struct Map<B, F> {
    base: B,
    f: F,
}
impl<B: ParallelIterator, R: Send, F: Fn(B::Item) -> R + Sync + Send> ParallelIterator for Map<B, F> {
    type Item = R;
    fn drive(self) -> Vec<R> {
        let f = self.f;
        par_map(self.base.drive(), f)
    }
}

macro_rules! into_par {
    ($($t:ty, [$($g:tt)*], $item:ty);* $(;)?) => {
        $( impl<$($g)*> IntoParallelIterator for $t {
            type Item = $item;
            type Iter = Par<$item>;
            fn into_par_iter(self) -> Par<$item> { Par { items: self.into_iter().collect(), fixed: false } }
        } )*
    }
}
use std::collections::{BTreeMap, HashMap};
into_par! {
    &'a BTreeMap<K, V>, ['a, K: Sync + Ord + 'a, V: Sync + 'a], (&'a K, &'a V);
    &'a mut BTreeMap<K, V>, ['a, K: Sync + Ord + 'a, V: Send + 'a], (&'a K, &'a mut V);
    &'a Vec<T>, ['a, T: Sync + 'a], &'a T;
    Vec<T>, [T: Send], T;
    HashMap<K, V, S>, [K: Send + Eq + std::hash::Hash, V: Send, S: std::hash::BuildHasher], (K, V);
    melda_verif_shim::collections::HashMap<K, V>, [K: Send + Eq + std::hash::Hash, V: Send], (K, V);
    &'a melda_verif_shim::collections::HashMap<K, V>, ['a, K: Sync + Eq + std::hash::Hash + 'a, V: Sync + 'a], (&'a K, &'a V);
    &'a HashMap<K, V, S>, ['a, K: Sync + Eq + std::hash::Hash + 'a, V: Sync + 'a, S: std::hash::BuildHasher], (&'a K, &'a V);
    &'a mut Vec<T>, ['a, T: Send + 'a], &'a mut T;
    &'a [T], ['a, T: Sync + 'a], &'a T;
    &'a mut [T], ['a, T: Send + 'a], &'a mut T;
    std::collections::BTreeSet<T>, [T: Send + Ord], T;
    &'a std::collections::BTreeSet<T>, ['a, T: Sync + Ord + 'a], &'a T;
    std::collections::HashSet<T, S>, [T: Send + Eq + std::hash::Hash, S: std::hash::BuildHasher], T;
    &'a std::collections::HashSet<T, S>, ['a, T: Sync + Eq + std::hash::Hash + 'a, S: std::hash::BuildHasher], &'a T;
    melda_verif_shim::collections::HashSet<T>, [T: Send + Eq + std::hash::Hash], T;
    &'a melda_verif_shim::collections::HashSet<T>, ['a, T: Sync + Eq + std::hash::Hash + 'a], &'a T;
    std::collections::BTreeMap<K, V>, [K: Send + Ord, V: Send], (K, V);
    std::collections::VecDeque<T>, [T: Send], T;
    std::ops::Range<usize>, [], usize;
    std::ops::Range<u32>, [], u32;
    std::ops::Range<u64>, [], u64;
    Option<T>, [T: Send], T;
}

pub mod prelude {
    pub use crate::iter::*;
}
